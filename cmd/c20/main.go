// C20 — a digest depends only on the algorithm and the bytes.
//
// Reference monitor over executions of hashing.IHash / filesystem.IFileHash / FS.FileHash*:
// every digest the library returns for a content is compared with (a) the one-shot function of the
// standard implementation on fresh state (md5.Sum, sha1.Sum, sha256.Sum256, blake2b.Sum256,
// xxhash.Checksum64, murmur3.Sum64; only the hex encoding mirrors the library) and (b) hard-coded
// published known-answer vectors. Cases:
//
//	A  one calculation on a fresh hasher × contents of length {0,1,…,block±1,…,2^20} × 15 reader chunkings
//	M  minimal known-answer histories (fail@1 then "abc", …) — run first so that a witness is small
//	E  all histories of length ≤ 3 over {ok, fail@k, cancel@k} (k in offset classes) + a final ok probe
//	S  PRNG histories of length 1..6 + probe, arbitrary k, lengths up to 2^20
//	F  files on the OS backend (scratch dir) and the in-memory backend through FS.FileHash*,
//	   IFileHash.Calculate*/CalculateFile*, fresh and after failed / cancelled / fault-injected runs
//
// Oracle (only what the property states): a calculation that reports success for a content whose
// bytes were all delivered must return the reference digest of exactly those bytes. Don't care:
// what a failed or cancelled calculation returns (error kind, partial digest), whether a reader
// error is reported at all, errors returned for healthy inputs (counted as inconclusive).
package main

import (
	"encoding/json"
	"fmt"
	"math"
	"os"
	"sort"
	"sync"
	"sync/atomic"
	"time"

	"verif/internal/vrun"
)

type amax struct{ v atomic.Int64 }

func (a *amax) max(x int64) {
	for {
		c := a.v.Load()
		if x <= c || a.v.CompareAndSwap(c, x) {
			return
		}
	}
}

type sset struct {
	mu sync.Mutex
	m  map[string]int64
}

func (s *sset) add(k string) {
	s.mu.Lock()
	if s.m == nil {
		s.m = map[string]int64{}
	}
	s.m[k]++
	s.mu.Unlock()
}

type monitor struct {
	r       *vrun.Run
	scratch string

	maxBuf, maxDirty                                          amax
	readCalls, zeroReads                                      atomic.Int64
	failedSteps, failedMid, failNil                           atomic.Int64
	unknownSize                                               atomic.Int64
	swallowedBackendFaults                                    atomic.Int64
	heldRechecked                                             atomic.Int64
	viewDigests                                               atomic.Int64
	rewrittenSameStamp                                        atomic.Int64
	cancelledSteps, cancelledMid, cancelCompleted, cancelNil  atomic.Int64
	obsFailedObserved, obsDirtyAfterFail, katCompared         atomic.Int64
	fileFailMid                                               atomic.Int64
	fileEps, fileFailures, pres, styles, algosSeen, histShape sset
}

func (m *monitor) count(pre, cause string) {
	k := pre
	if cause != "none" {
		k += " (" + cause + ")"
	}
	m.pres.add(k)
}

var lengths = []int{0, 1, 2, 3, 4, 7, 8, 15, 16, 17, 31, 32, 33, 55, 56, 57, 63, 64, 65, 111, 112, 113, 119, 120, 121, 127, 128, 129,
	191, 192, 193, 255, 256, 257, 511, 512, 513, 1023, 1024, 1025, 4095, 4096, 4097, 32767, 32768, 32769, 65535, 65536, 65537, 1<<20 - 1, 1 << 20}

// ---------------------------------------------------------------------------------------------
// case generation (pure functions of VERIF_SEED and the tier)

func (m *monitor) partAContents() []contentSpec {
	var cs []contentSpec
	idx := 0
	nprng := m.r.Pick(1, 6)
	for i, l := range lengths {
		for v := 0; v < nprng; v++ {
			cs = append(cs, contentSpec{Kind: "prng", Len: l, Idx: idx})
			idx++
		}
		if m.r.Quick() {
			cs = append(cs, contentSpec{Kind: []string{"zeros", "ff", "a"}[i%3], Len: l})
		} else {
			cs = append(cs, contentSpec{Kind: "zeros", Len: l}, contentSpec{Kind: "ff", Len: l}, contentSpec{Kind: "a", Len: l})
		}
	}
	rng := m.r.Rand("c20-A-lengths", 0)
	for i := 0; i < m.r.Pick(60, 3000); i++ {
		l := int(math.Exp2(rng.Float64()*20.0001)) - 1 + rng.IntN(2) // log-uniform over 0..2^20
		if l > 1<<20 {
			l = 1 << 20
		}
		if m.r.Quick() && l > 1<<17 {
			l >>= 3
		}
		cs = append(cs, contentSpec{Kind: "prng", Len: l, Idx: idx})
		idx++
	}
	for i, s := range katInputs {
		cs = append(cs, contentSpec{Kind: "kat", Len: len(s), Idx: i})
	}
	sort.SliceStable(cs, func(a, b int) bool { return cs[a].Len > cs[b].Len }) // big ones first (load balance)
	return cs
}

func shortKAT(a *algo) string {
	if _, ok := a.KAT["abc"]; ok {
		return "abc"
	}
	return "hello"
}

func (m *monitor) partM() []histCase {
	var out []histCase
	for _, a := range algos {
		k := shortKAT(a)
		okS := func(in, api, chunk string) step {
			return step{Outcome: "ok", API: api, Content: katSpec(in), Chunk: chunk}
		}
		mk := func(steps ...step) {
			for _, ctor := range []string{"named", "bespoke"} {
				out = append(out, histCase{Part: "M", Algo: a.Name, Ctor: ctor, Steps: steps})
			}
		}
		mk(step{Outcome: "fail", K: 1, API: "Calculate", Content: katSpec(k), Chunk: "fill", FailErr: "custom", FailWithData: true}, okS(k, "Calculate", "bytes.Reader"))
		mk(step{Outcome: "fail", K: 1, API: "Calculate", Content: katSpec(k), Chunk: "1", FailErr: "custom"}, okS("", "Calculate", "bytes.Reader"))
		mk(step{Outcome: "cancel", K: 1, API: "CalculateWithContext", Content: katSpec(k), Chunk: "1"}, okS(k, "CalculateWithContext", "strings.Reader"))
		mk(step{Outcome: "fail", K: 1, API: "CalculateWithContext", Content: katSpec(k), Chunk: "1", FailErr: "unexpectedEOF"}, okS(k, "CalculateStringHash", "strings.Reader"))
		mk(okS(k, "Calculate", "fill"), okS("", "Calculate", "fill"), okS(k, "CalculateWithContext", "1"))
		for _, bl := range blankInputs {
			mk(okS(bl, "CalculateStringHash", "strings.Reader"))
			mk(okS(bl, "Calculate", "strings.Reader"), okS(bl, "CalculateStringHash", "strings.Reader"))
		}
		mk(step{Outcome: "fail", K: 0, API: "Calculate", Content: katSpec(k), Chunk: "fill", FailErr: "custom"}, okS(k, "Calculate", "fill"))
		mk(step{Outcome: "cancel", K: -1, API: "CalculateWithContext", Content: katSpec(k), Chunk: "fill"}, okS(k, "Calculate", "fill"))
		mk(step{Outcome: "fail", K: len(k), API: "Calculate", Content: katSpec(k), Chunk: "fill", FailErr: "custom"}, okS(k, "Calculate", "fill")) // error instead of EOF
		for in := range a.KAT {                                                                                                                    // every published vector on a fresh hasher, whole and byte-wise
			out = append(out, histCase{Part: "M", Algo: a.Name, Ctor: "named", Steps: []step{okS(in, "Calculate", "fill")}})
			if len(in) < 1000 {
				out = append(out, histCase{Part: "M", Algo: a.Name, Ctor: "named", Steps: []step{okS(in, "CalculateWithContext", "1")}})
			}
		}
	}
	sort.SliceStable(out, func(i, j int) bool { // map order must not leak; plain constructor first
		if out[i].Algo != out[j].Algo {
			return out[i].Algo < out[j].Algo
		}
		if out[i].Ctor != out[j].Ctor {
			return out[i].Ctor == "named"
		}
		return out[i].canonical() < out[j].canonical()
	})
	return out
}

type sym struct {
	outcome string
	kclass  string
}

func alphabet(quick bool) []sym {
	fk := []string{"0", "1", "B-1", "B", "B+1", "mid", "L-1", "L"}
	ck := []string{"pre", "0", "1", "B-1", "B", "B+1", "mid", "L-1", "L"}
	if quick {
		fk = []string{"0", "1", "B", "mid", "L-1", "L"}
		ck = []string{"pre", "0", "1", "B", "mid", "L"}
	}
	al := []sym{{"ok", ""}}
	for _, k := range fk {
		al = append(al, sym{"fail", k})
	}
	for _, k := range ck {
		al = append(al, sym{"cancel", k})
	}
	return al
}

func resolveK(class string, l, b int) int {
	k := 0
	switch class {
	case "pre":
		return -1
	case "0":
		k = 0
	case "1":
		k = 1
	case "B-1":
		k = b - 1
	case "B":
		k = b
	case "B+1":
		k = b + 1
	case "mid":
		k = l / 2
	case "L-1":
		k = l - 1
	case "L":
		k = l
	}
	if k > l {
		k = l
	}
	if k < 0 {
		k = 0
	}
	return k
}

// fillStep chooses the unconstrained details of a step (content, chunking, entry point, error shape).
func (m *monitor) fillStep(st *step, a *algo, rng interface {
	IntN(int) int
}, contentIdx int, wide bool) {
	b := a.Block
	ls := []int{2*b + 5, 3 * b, 3*b + 1, 1000, 1337, 4097}
	l := ls[rng.IntN(len(ls))]
	switch {
	case wide && rng.IntN(40) == 0 && !m.r.Quick():
		l = lengths[len(lengths)-1-rng.IntN(2)] // 2^20, 2^20-1
	case wide && rng.IntN(6) == 0:
		l = lengths[rng.IntN(len(lengths)-2)]
	case rng.IntN(16) == 0:
		l = []int{40000, 70001}[rng.IntN(2)] // crosses io.Copy's 32 KiB buffer
	}
	st.Content = contentSpec{Kind: "prng", Len: l, Idx: contentIdx}
	st.Chunk = chunkStyles[rng.IntN(len(chunkStyles))]
	if l > 1<<17 && (st.Chunk == "1" || st.Chunk == "7") {
		st.Chunk = "513"
	}
	st.ChunkSeed = rng.IntN(1 << 20)
	switch st.Outcome {
	case "ok":
		switch x := rng.IntN(8); {
		case x == 0 && l <= 1<<16:
			st.API = "CalculateStringHash"
			st.Chunk = "strings.Reader"
		case x < 4:
			st.API = "Calculate"
		default:
			st.API = "CalculateWithContext"
		}
	case "fail":
		st.API = []string{"Calculate", "CalculateWithContext"}[rng.IntN(2)]
		st.FailErr = []string{"custom", "custom", "unexpectedEOF", "wrappedEOF"}[rng.IntN(4)]
		st.FailWithData = rng.IntN(2) == 0
	default:
		st.API = "CalculateWithContext"
	}
}

func (m *monitor) exhaustiveCase(a *algo, al []sym, seq []int, index int) histCase {
	rng := m.r.Rand("c20-E-"+a.Name, index)
	hc := histCase{Part: "E", Algo: a.Name, Ctor: "named"}
	if index%4 == 3 {
		hc.Ctor = "bespoke"
	}
	for j, s := range seq {
		st := step{Outcome: al[s].outcome}
		m.fillStep(&st, a, rng, index*8+j, false)
		if st.Outcome != "ok" {
			st.K = resolveK(al[s].kclass, st.Content.Len, a.Block)
		}
		hc.Steps = append(hc.Steps, st)
	}
	// final probe: alternately a published vector and a PRNG content
	probe := step{Outcome: "ok"}
	m.fillStep(&probe, a, rng, index*8+7, false)
	if index%2 == 0 {
		in := shortKAT(a)
		if index%4 == 0 {
			in = ""
		}
		probe.Content = katSpec(in)
	}
	hc.Steps = append(hc.Steps, probe)
	return hc
}

func (m *monitor) sampledCase(a *algo, index int) histCase {
	rng := m.r.Rand("c20-S-"+a.Name, index)
	hc := histCase{Part: "S", Algo: a.Name, Ctor: "named"}
	if rng.IntN(4) == 0 {
		hc.Ctor = "bespoke"
	}
	n := 1 + rng.IntN(6)
	if index%3 == 0 {
		n = 4 + rng.IntN(3) // make sure the long ones are well represented
	}
	for j := 0; j < n; j++ {
		st := step{Outcome: []string{"ok", "ok", "fail", "fail", "fail", "cancel", "cancel", "cancel"}[rng.IntN(8)]}
		m.fillStep(&st, a, rng, index*8+j, true)
		if st.Outcome != "ok" {
			l := st.Content.Len
			switch rng.IntN(4) {
			case 0:
				st.K = resolveK([]string{"0", "1", "B-1", "B", "B+1", "mid", "L-1", "L"}[rng.IntN(8)], l, a.Block)
			default:
				st.K = rng.IntN(l + 1)
			}
			if st.Outcome == "cancel" && rng.IntN(12) == 0 {
				st.K = -1
			}
		}
		hc.Steps = append(hc.Steps, st)
	}
	probe := step{Outcome: "ok"}
	m.fillStep(&probe, a, rng, index*8+7, true)
	if rng.IntN(3) == 0 {
		ins := make([]string, 0, len(a.KAT))
		for in := range a.KAT {
			if len(in) < 1000 {
				ins = append(ins, in)
			}
		}
		sort.Strings(ins)
		probe.Content = katSpec(ins[rng.IntN(len(ins))])
	}
	hc.Steps = append(hc.Steps, probe)
	return hc
}

func (m *monitor) fileCases() []fileCase {
	ls := []int{0, 1, 63, 64, 65, 127, 128, 129, 4096, 32767, 32768, 32769, 65537, 1 << 20}
	variants := 1
	if !m.r.Quick() {
		ls = lengths
		variants = 3
	}
	var out []fileCase
	id := 0
	for _, be := range []string{"os", "mem"} {
		for _, a := range algos {
			for _, l := range ls {
				for v := 0; v < variants; v++ {
					l2 := []int{777, 0, 40001, 3}[(id+v)%4]
					out = append(out, fileCase{Part: "F", ID: id, Backend: be, Algo: a.Name,
						Content: contentSpec{Kind: "prng", Len: l, Idx: 1_000_000 + id}, Content2: contentSpec{Kind: "prng", Len: l2, Idx: 2_000_000 + id}})
					id++
				}
			}
			for _, in := range []string{"", shortKAT(a)} { // published vectors as files
				out = append(out, fileCase{Part: "F", ID: id, Backend: be, Algo: a.Name, Content: katSpec(in), Content2: contentSpec{Kind: "prng", Len: 129, Idx: 2_000_000 + id}})
				id++
			}
		}
	}
	sort.SliceStable(out, func(i, j int) bool { return out[i].Content.Len > out[j].Content.Len })
	return out
}

// ---------------------------------------------------------------------------------------------

func (m *monitor) doHist(hc histCase) {
	judged, nt := m.runHistory(hc)
	m.r.CaseN(hc.canonical(), nt, int64(judged))
	m.algosSeen.add(hc.Algo)
	for _, s := range hc.Steps {
		m.styles.add(s.Chunk)
	}
	if hc.Part == "A" && m.r.WantSample() && nt && hc.Steps[0].Content.Len > 64 && hc.Steps[0].Content.Len < 5000 {
		m.r.Sample(hc)
	}
	if hc.Part == "S" && m.r.WantSample() && nt && len(hc.Steps) >= 4 && len(hc.Steps) <= 5 {
		m.r.Sample(hc)
	}
}

func main() {
	r := vrun.Start("C20", "exploration")
	m := &monitor{r: r}
	selfCheckReferences(r)

	r.Rule("evaluation = one digest returned by the library with a nil error for a fully delivered content, compared with the one-shot reference of exactly those bytes (and with the published vector when the content is one). " +
		"Cases: A = (algorithm × content × chunking) on a fresh hasher, contents of length {0,1,…,15..17,31..33,55..57,63..65,111..129,…,32767..32769,65535..65537,2^20-1,2^20} (PRNG bytes, 0x00/0xff/'a' runs), log-uniform PRNG lengths and every published vector input, " +
		"17 chunkings (1,7,511,512,513,32767,32768,32769, fill, cycle, random with sparse (0,nil) reads, data+EOF, zero-sprinkled, bytes.Reader, strings.Reader, a bytes.Reader positioned behind a header read before, a reader whose Seek method always fails); non-trivial iff the instrumented reader delivered the content in ≥ 2 data-carrying reads. " +
		"M/E/S = histories on ONE hasher object: steps ok / fail@k (reader error after exactly k bytes, with or without data in the failing Read, custom error or io.ErrUnexpectedEOF) / cancel@k (context cancelled once k bytes were delivered, or before the call); " +
		"E enumerates every sequence of length 1..3 over the alphabet {ok, fail@class, cancel@class} (offset classes 0,1,B-1,B,B+1,mid,L-1,L and, for cancel, before-the-call; B = block size, L = length), each followed by an ok probe; the thorough tier runs each such history in 8 variants of the unconstrained details (contents, chunkings, entry points), S samples lengths 1..6 with arbitrary k; constructors NewHashingAlgorithm(name) and NewBespokeHashingAlgorithm(observed standard hash); " +
		"non-trivial iff a judged digest was preceded on the same object by a calculation that returned an error after the reader had delivered ≥ 1 byte. " +
		"F = (backend × algorithm × file content) through FS.FileHash*, IFileHash.Calculate*/CalculateFile*, fresh and after pre-cancelled / not-a-file / file read error@k / cancel@k / backend File.Read fault (fsmon) on the same IFileHash; non-trivial iff a judged file was non-empty. " +
		"distinct = canonical string of the whole case (algorithm, constructor, every step with content spec, chunking, k, entry point).")
	r.Assume("the one-shot functions of crypto/md5, crypto/sha1, crypto/sha256, x/crypto/blake2b, OneOfOne/xxhash, spaolacci/murmur3 are the standard implementations (each is checked against published vectors at start-up; a mismatch is a harness error)",
		"digest encoding: lower-case hex of the digest bytes; 64-bit sums big-endian (mirrors the library's hex.EncodeToString(Sum(nil)))",
		"file bytes = what the harness wrote, verified by an independent read back (os.ReadFile / afero handle) before hashing",
		"don't care: result of a failed/cancelled calculation, whether a reader error is surfaced, error kinds; an error for a healthy input is counted inconclusive, not a violation")

	wd := time.AfterFunc(time.Duration(r.Pick(12, 80))*time.Minute, func() {
		r.Inconclusive("in-process watchdog fired")
		_ = os.RemoveAll(m.scratch)
		r.Fatalf("watchdog: run did not finish (inconclusive, not a verdict)")
	})
	defer wd.Stop()

	t0 := time.Now() // progress lines only; never decides anything
	m.scratch = vrun.Scratch("c20")
	defer os.RemoveAll(m.scratch)

	if r.Replay != "" {
		m.replay()
		_ = os.RemoveAll(m.scratch)
		r.Finish()
	}

	// M: minimal known-answer histories, sequential and first: the first witness of a signature is small
	mc := m.partM()
	for _, hc := range mc {
		m.doHist(hc)
	}
	r.Obs("cases_M_minimal_histories", int64(len(mc)))

	// E: exhaustive histories of length ≤ 3
	al := alphabet(false)
	variants := r.Pick(1, 8)
	var seqs [][]int
	for n := 1; n <= 3; n++ {
		tot := 1
		for i := 0; i < n; i++ {
			tot *= len(al)
		}
		for x := 0; x < tot; x++ {
			seq := make([]int, n)
			y := x
			for i := 0; i < n; i++ {
				seq[i] = y % len(al)
				y /= len(al)
			}
			seqs = append(seqs, seq)
		}
	}
	vrun.Parallel(len(seqs)*len(algos)*variants, 0, func(i int) {
		a := algos[i%len(algos)]
		j := i / len(algos)
		m.doHist(m.exhaustiveCase(a, al, seqs[j%len(seqs)], j))
	})
	fmt.Printf("info: part E done at %.1fs\n", time.Since(t0).Seconds())
	r.Obs("cases_E_exhaustive_histories", int64(len(seqs)*len(algos)*variants))
	r.Obs("alphabet_size", int64(len(al)))

	// S: sampled histories up to length 6
	ns := r.Pick(8000, 150_000)
	vrun.Parallel(ns*len(algos), 0, func(i int) {
		hc := m.sampledCase(algos[i%len(algos)], i/len(algos))
		m.histShape.add(fmt.Sprintf("len%d", len(hc.Steps)-1))
		m.doHist(hc)
	})
	fmt.Printf("info: part S done at %.1fs\n", time.Since(t0).Seconds())
	r.Obs("cases_S_sampled_histories", int64(ns*len(algos)))

	// A: one-shot × chunking
	cs := m.partAContents()
	nA := len(cs) * len(algos) * len(chunkStyles)
	vrun.Parallel(nA, 0, func(i int) {
		c := cs[i/(len(algos)*len(chunkStyles))]
		a := algos[(i/len(chunkStyles))%len(algos)]
		style := chunkStyles[i%len(chunkStyles)]
		api := "Calculate"
		if i%2 == 1 {
			api = "CalculateWithContext"
		}
		m.doHist(histCase{Part: "A", Algo: a.Name, Ctor: "named", Steps: []step{{Outcome: "ok", API: api, Content: c, Chunk: style, ChunkSeed: i}}})
	})
	fmt.Printf("info: part A done at %.1fs\n", time.Since(t0).Seconds())
	r.Obs("cases_A_oneshot_chunkings", int64(nA))
	r.Obs("contents_A", int64(len(cs)))

	// F: files on both backends
	fcs := m.fileCases()
	vrun.Parallel(len(fcs), 0, func(i int) {
		judged, nt := m.runFileCase(fcs[i])
		r.CaseN(fcs[i].canonical(), nt, int64(judged))
		r.Obs("file_digests_judged", int64(judged))
		r.ObsSet("backends", fcs[i].Backend)
		if i == len(fcs)/2 {
			r.Sample(fcs[i])
		}
	})
	m.runUnknownSizeFiles()
	m.runArchiveViews()
	r.Obs("digests_of_files_of_the_archive_views_judged", m.viewDigests.Load())
	r.Obs("digests_of_files_whose_reported_size_is_zero_judged", m.unknownSize.Load())
	r.Obs("backend_read_faults_not_reported_by_the_library_digest_judged", m.swallowedBackendFaults.Load())
	r.Obs("digests_looked_at_again_after_later_calculations_on_the_same_hasher", m.heldRechecked.Load())
	r.Obs("files_rewritten_in_place_with_the_same_length_and_time", m.rewrittenSameStamp.Load())
	fmt.Printf("info: part F done at %.1fs\n", time.Since(t0).Seconds())
	r.Obs("cases_F_files", int64(len(fcs)))
	_ = os.RemoveAll(m.scratch)

	m.report()
	r.Extra("exhaustive_subspaces", fmt.Sprintf("all %d histories of length 1..3 over a %d-letter alphabet {ok, fail@class, cancel@class} × 6 algorithms, each followed by an ok probe; every published vector on a fresh hasher", len(seqs), len(al)))
	r.Exhaustive(false)

	r.Require("algorithms", 6)
	r.Require("chunkings", 17)
	r.Require("backends", 2)
	r.Require("file_entry_points_by_backend", 12)
	r.Require("digests_judged", int64(r.Pick(50_000, 1_000_000)))
	r.Require("digests_judged_after_midway_failure", int64(r.Pick(10_000, 300_000)))
	r.Require("digests_judged_after_midway_cancellation", int64(r.Pick(3_000, 100_000)))
	r.Require("digests_judged_on_fresh_hasher", 5_000)
	r.Require("digests_judged_after_successes_only", 1_000)
	r.Require("published_vector_comparisons", 1_000)
	r.Require("steps_failed_after_delivering_bytes", 10_000)
	r.Require("steps_cancelled_after_delivering_bytes", 3_000)
	r.Require("file_digests_judged", int64(r.Pick(2_000, 20_000)))
	r.Require("file_failures_after_delivering_bytes", 100)
	r.Require("observed_hasher_failed_steps", 500)
	r.Require("distinct_nontrivial", 10_000)
	r.Finish()
}

func (m *monitor) report() {
	r := m.r
	var total, afterFail, afterCancel, fresh, okOnly int64
	for k, n := range m.pres.m {
		r.Obs("digests_judged: "+k, n)
		total += n
		switch {
		case k == "fresh hasher":
			fresh += n
		case k == "previous calculations succeeded":
			okOnly += n
		}
		if len(k) > 34 && k[:34] == "previous calculation failed midway" {
			if k != "previous calculation failed midway (cancelled)" {
				afterFail += n
			}
			if k != "previous calculation failed midway (reader error)" {
				afterCancel += n
			}
		}
	}
	r.Obs("digests_judged", total)
	r.Obs("digests_judged_after_midway_failure", afterFail)
	r.Obs("digests_judged_after_midway_cancellation", afterCancel)
	r.Obs("digests_judged_on_fresh_hasher", fresh)
	r.Obs("digests_judged_after_successes_only", okOnly)
	r.Obs("published_vector_comparisons", m.katCompared.Load())
	r.Obs("steps_failed_as_scripted", m.failedSteps.Load())
	r.Obs("steps_failed_after_delivering_bytes", m.failedMid.Load())
	r.Obs("steps_cancelled_as_scripted", m.cancelledSteps.Load())
	r.Obs("steps_cancelled_after_delivering_bytes", m.cancelledMid.Load())
	r.Obs("fail_steps_that_returned_a_nil_error(judged:digest_must_be_the_reference)", m.failNil.Load())
	r.Obs("dontcare_cancel_step_returned_nil_error_before_eof", m.cancelNil.Load())
	r.Obs("cancel_steps_completed_and_judged", m.cancelCompleted.Load())
	r.Obs("reader_read_calls", m.readCalls.Load())
	r.Obs("reader_zero_length_reads", m.zeroReads.Load())
	r.ObsMax("reader_max_buffer_offered", m.maxBuf.v.Load())
	r.Obs("observed_hasher_failed_steps", m.obsFailedObserved.Load())
	r.Obs("observed_hasher_failed_steps_leaving_unreset_bytes", m.obsDirtyAfterFail.Load())
	r.ObsMax("observed_hasher_max_unreset_bytes_after_failure", m.maxDirty.v.Load())
	r.Obs("file_failures_after_delivering_bytes", m.fileFailMid.Load())
	for k := range m.algosSeen.m {
		r.ObsSet("algorithms", k)
	}
	for k := range m.styles.m {
		r.ObsSet("chunkings", k)
	}
	for k := range m.fileEps.m {
		r.ObsSet("file_entry_points_by_backend", k)
	}
	for k := range m.fileFailures.m {
		r.ObsSet("file_failure_kinds_by_backend", k)
	}
	for k, n := range m.histShape.m {
		r.Obs("sampled_histories_"+k, n)
	}
}

func (m *monitor) replay() {
	var w struct {
		Seed int64           `json:"seed"`
		Case json.RawMessage `json:"case"`
	}
	if err := m.r.ReadReplay(&w); err != nil {
		m.r.Fatalf("cannot read witness: %v", err)
	}
	var peek struct {
		Part string `json:"part"`
	}
	if err := json.Unmarshal(w.Case, &peek); err != nil {
		m.r.Fatalf("witness has no replayable case: %v", err)
	}
	m.r.Seed = w.Seed
	if peek.Part == "F" {
		var fc fileCase
		if err := json.Unmarshal(w.Case, &fc); err != nil {
			m.r.Fatalf("bad witness: %v", err)
		}
		j, nt := m.runFileCase(fc)
		m.r.CaseN(fc.canonical(), nt, int64(j))
		fmt.Printf("replayed file case %s: %d digests judged\n", fc.canonical(), j)
		return
	}
	var hc histCase
	if err := json.Unmarshal(w.Case, &hc); err != nil {
		m.r.Fatalf("bad witness: %v", err)
	}
	j, nt := m.runHistory(hc)
	m.r.CaseN(hc.canonical(), nt, int64(j))
	fmt.Printf("replayed history %s: %d digests judged\n", hc.canonical(), j)
}
