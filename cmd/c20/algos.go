package main

import (
	"crypto/md5"  //nolint:gosec
	"crypto/sha1" //nolint:gosec
	"crypto/sha256"
	"encoding/hex"
	"fmt"
	"hash"
	"strings"

	"github.com/OneOfOne/xxhash"
	"github.com/spaolacci/murmur3"
	"golang.org/x/crypto/blake2b"

	"github.com/ARM-software/golang-utils/utils/hashing"

	"verif/internal/vrun"
)

// algo describes one of the six algorithms named by the property: the library's own constant, the
// one-shot reference function on fresh state (only the encoding of the digest to a string mirrors
// the library: lower-case hex of the digest bytes, 64-bit sums big-endian = %016x), and published
// known-answer vectors (guard against comparing an implementation with itself).
type algo struct {
	Name  string // library constant
	Block int    // internal block/stripe size (only used to pick interesting byte offsets)
	Ref   func([]byte) string
	New   func() hash.Hash // standard implementation, for the observed "bespoke" hasher
	KAT   map[string]string
}

const (
	in448    = "abcdbcdecdefdefgefghfghighijhijkijkljklmklmnlmnomnopnopq"
	inFox    = "The quick brown fox jumps over the lazy dog"
	inIsh    = "Call me Ishmael. Some years ago--never mind how long precisely-"
	inFoxURL = "The quick brown fox jumps over the lazy dog http://i.imgur.com/VHQXScB.gif"
)

var inMillionA = strings.Repeat("a", 1_000_000)

// katInputs is the global list of known-answer inputs (contentSpec{Kind:"kat", Idx:i}).
var katInputs = []string{
	"", "abc", "a", "message digest", inFox, in448, inMillionA,
	"as", "asd", "asdf", inIsh, inFoxURL,
	"hello", "hello, world", "19 Jan 2038 at 3:14:07 AM", inFox + ".",
	// blank contents are contents like any other
	" ", "\n", "\t", "\r\n", "  \n ",
}

var blankInputs = []string{"", " ", "\n", "\t", "\r\n", "  \n "}

var algos = []*algo{
	{
		Name: hashing.HashMd5, Block: 64,
		Ref: func(b []byte) string { s := md5.Sum(b); return hex.EncodeToString(s[:]) }, //nolint:gosec
		New: md5.New,
		KAT: map[string]string{ // RFC 1321 A.5 + the classic extras
			"":               "d41d8cd98f00b204e9800998ecf8427e",
			"a":              "0cc175b9c0f1b6a831c399e269772661",
			"abc":            "900150983cd24fb0d6963f7d28e17f72",
			"message digest": "f96b697d7cb7938d525a2f31aaf161d0",
			inFox:            "9e107d9d372bb6826bd81d3542a419d6",
			in448:            "8215ef0796a20bcaaae116d3876c664a",
			inMillionA:       "7707d6ae4e027c70eea2a935c2296f21",
		},
	},
	{
		Name: hashing.HashSha1, Block: 64,
		Ref: func(b []byte) string { s := sha1.Sum(b); return hex.EncodeToString(s[:]) }, //nolint:gosec
		New: sha1.New,
		KAT: map[string]string{ // FIPS 180 examples
			"":         "da39a3ee5e6b4b0d3255bfef95601890afd80709",
			"abc":      "a9993e364706816aba3e25717850c26c9cd0d89d",
			in448:      "84983e441c3bd26ebaae4aa1f95129e5e54670f1",
			inMillionA: "34aa973cd4c4daa4f61eeb2bdbad27316534016f",
			inFox:      "2fd4e1c67a2d28fced849ee1bb76e7391b93eb12",
		},
	},
	{
		Name: hashing.HashSha256, Block: 64,
		Ref: func(b []byte) string { s := sha256.Sum256(b); return hex.EncodeToString(s[:]) },
		New: sha256.New,
		KAT: map[string]string{ // FIPS 180 examples
			"":         "e3b0c44298fc1c149afbf4c8996fb92427ae41e4649b934ca495991b7852b855",
			"abc":      "ba7816bf8f01cfea414140de5dae2223b00361a396177a9cb410ff61f20015ad",
			in448:      "248d6a61d20638b8e5c026930c3e6039a33ce45964ff2167f6ecedd419db06c1",
			inMillionA: "cdc76e5c9914fb9281a1c7e284d73e67f1809a48a497200e046d39ccc7112cd0",
			inFox:      "d7a8fbb307d7809469ca9abcb0082e4f8d5651e46d3cdb762d02d0bf37c9e592",
		},
	},
	{
		Name: hashing.HashBlake2256, Block: 128,
		Ref: func(b []byte) string { s := blake2b.Sum256(b); return hex.EncodeToString(s[:]) },
		New: func() hash.Hash { h, _ := blake2b.New256(nil); return h },
		KAT: map[string]string{ // BLAKE2b-256 (unkeyed), values of the reference implementation (b2sum -l 256)
			"":         "0e5751c026e543b2e8ab2eb06099daa1d1e5df47778f7787faab45cdf12fe3a8",
			"abc":      "bddd813c634239723171ef3fee98579b94964e3bb1cb3e427262c8c068d52319",
			"a":        "8928aae63c84d87ea098564d1e03ad813f107add474e56aedd286349c0c03ea4",
			inFox:      "01718cec35cd3d796dd00020e0bfecb473ad23457d063b75eff29c0ffa2e58a9",
			inMillionA: "0741850f36cba4259628355d1073e24ddb9ca0e1bfac36fd39ae5dc2101e23a4",
		},
	},
	{
		Name: hashing.HashXXHash, Block: 32,
		Ref: func(b []byte) string { return fmt.Sprintf("%016x", xxhash.Checksum64(b)) },
		New: func() hash.Hash { return xxhash.New64() },
		KAT: map[string]string{ // XXH64, seed 0 (xxHash reference sanity values / cespare & OneOfOne test tables)
			"":       "ef46db3751d8e999",
			"a":      "d24ec4f1a98c6e5b",
			"abc":    "44bc2cf5ad770999",
			"as":     "1c330fb2d66be179",
			"asd":    "631c37ce72a97393",
			"asdf":   "415872f599cea71e",
			inIsh:    "02a2e85470d6fd96",
			inFoxURL: "93267f9820452ead",
		},
	},
	{
		Name: hashing.HashMurmur, Block: 16,
		Ref: func(b []byte) string { return fmt.Sprintf("%016x", murmur3.Sum64(b)) },
		New: func() hash.Hash { return murmur3.New64() },
		KAT: map[string]string{ // MurmurHash3_x64_128, seed 0, first 64 bits (h1)
			"":                          "0000000000000000",
			"hello":                     "cbd8a7b341bd9b02",
			"hello, world":              "342fac623a5ebc8e",
			"19 Jan 2038 at 3:14:07 AM": "b89e5988b737affc",
			inFox + ".":                 "cd99481f9ee902c9",
			inFox:                       "e34bbc7bbc071b6c",
		},
	},
}

func algoByName(n string) *algo {
	for _, a := range algos {
		if a.Name == n {
			return a
		}
	}
	return nil
}

// selfCheckReferences: the one-shot references must reproduce every published vector, and every KAT
// input must be in katInputs. A mismatch is a harness error (never a verdict about the library).
func selfCheckReferences(r *vrun.Run) {
	idx := map[string]bool{}
	for _, s := range katInputs {
		idx[s] = true
	}
	n := 0
	for _, a := range algos {
		for in, want := range a.KAT {
			if !idx[in] {
				r.Fatalf("KAT input of %s missing from katInputs (len %d)", a.Name, len(in))
			}
			if got := a.Ref([]byte(in)); got != want {
				r.Fatalf("reference self-check failed: %s one-shot(%q...)=%s, published vector %s", a.Name, head(in), got, want)
			}
			n++
		}
	}
	r.Obs("reference_vs_published_vector_selfchecks", int64(n))
}

func head(s string) string {
	if len(s) > 24 {
		return s[:24] + fmt.Sprintf("…(len %d)", len(s))
	}
	return s
}
