package main

import (
	"context"
	"hash"
	"io"
	"math/rand/v2"
	"syscall"

	"github.com/ARM-software/golang-utils/utils/filesystem"
)

// chunk styles of the instrumented reader. A style decides how many bytes each Read returns (always
// clamped to len(p), to the remaining bytes and to the next scripted fail/cancel offset).
var chunkStyles = []string{
	"1", "7", "511", "512", "513", "32767", "32768", "32769", // fixed sizes (32KiB±1 around io.Copy's buffer)
	"fill",           // as much as the caller's buffer takes
	"cycle",          // 1,7,511,512,513,32767,32768,32769,...
	"random",         // PRNG sizes, a (0,nil) read with probability 1/16 (never twice in a row)
	"eof-with-data",  // fill; the last chunk is returned together with io.EOF (legal per io.Reader)
	"zero-sprinkled", // 512-byte chunks, a (0,nil) read on every 5th call (never twice in a row)
	"bytes.Reader",   // uninstrumented standard readers (ok steps only)
	"strings.Reader",
	"bytes.Reader-after-header", // a seekable reader positioned behind a header which was read before: the content starts where it stands
	"seek-refusing",             // a reader with a Seek method which always fails (a pipe, a socket)
}

var cycleSizes = []int{1, 7, 511, 512, 513, 32767, 32768, 32769}

func isNativeStyle(s string) bool {
	return s == "bytes.Reader" || s == "strings.Reader" || s == "bytes.Reader-after-header" || s == "seek-refusing"
}

// noSeek delivers its bytes but refuses to seek, like the read end of a pipe.
type noSeek struct{ io.Reader }

func (noSeek) Seek(int64, int) (int64, error) { return 0, syscall.ESPIPE }

type chunker struct {
	style string
	fixed int
	rng   *rand.Rand
	i     int
}

func newChunker(style string, rng *rand.Rand) *chunker {
	c := &chunker{style: style, rng: rng}
	switch style {
	case "1":
		c.fixed = 1
	case "7":
		c.fixed = 7
	case "511":
		c.fixed = 511
	case "512", "zero-sprinkled":
		c.fixed = 512
	case "513":
		c.fixed = 513
	case "32767":
		c.fixed = 32767
	case "32768":
		c.fixed = 32768
	case "32769":
		c.fixed = 32769
	}
	return c
}

// next returns (size, zeroRead) for the next Read call.
func (c *chunker) next(call int) (int, bool) {
	switch c.style {
	case "fill", "eof-with-data":
		return 1 << 30, false
	case "cycle":
		s := cycleSizes[c.i%len(cycleSizes)]
		c.i++
		return s, false
	case "random":
		if c.rng.IntN(16) == 0 {
			return 0, true
		}
		switch c.rng.IntN(5) {
		case 0:
			return 1 + c.rng.IntN(16), false
		case 1:
			return []int{15, 16, 17, 31, 32, 33, 63, 64, 65, 127, 128, 129}[c.rng.IntN(12)], false
		case 2:
			return 1 + c.rng.IntN(1024), false
		case 3:
			return 1 + c.rng.IntN(40000), false
		}
		return cycleSizes[c.rng.IntN(len(cycleSizes))], false
	case "zero-sprinkled":
		return c.fixed, call%5 == 2
	}
	return c.fixed, false
}

// scriptReader is the instrumented io.Reader: scripted chunk sizes, optional failure at byte failAt
// (exactly failAt bytes are delivered before the error), optional cancellation at byte cancelAt (the
// context is cancelled on entry of the first Read call made once cancelAt bytes have been delivered;
// the reader itself is not context-aware and keeps serving data).
type scriptReader struct {
	src   io.Reader
	total int
	pos   int
	ch    *chunker

	failAt       int // -1: none
	failErr      error
	failWithData bool // deliver the last chunk before failAt together with the error
	cancelAt     int  // -1: none
	cancel       context.CancelFunc
	cancelled    bool

	calls     int
	dataReads int
	zeroReads int
	maxBuf    int
	sawEOF    bool
	failed    bool
	lastZero  bool
	srcShort  bool
}

func newScriptReader(src io.Reader, total int, ch *chunker) *scriptReader {
	return &scriptReader{src: src, total: total, ch: ch, failAt: -1, cancelAt: -1}
}

func (s *scriptReader) Read(p []byte) (int, error) {
	s.calls++
	if len(p) > s.maxBuf {
		s.maxBuf = len(p)
	}
	if s.cancelAt >= 0 && !s.cancelled && s.pos >= s.cancelAt {
		s.cancelled = true
		s.cancel()
	}
	if s.failAt >= 0 && s.pos >= s.failAt {
		s.failed = true
		return 0, s.failErr
	}
	if len(p) == 0 {
		return 0, nil
	}
	if s.pos >= s.total {
		s.sawEOF = true
		return 0, io.EOF
	}
	n, zero := s.ch.next(s.calls)
	if zero && !s.lastZero {
		s.lastZero = true
		s.zeroReads++
		return 0, nil
	}
	s.lastZero = false
	if n < 1 {
		n = 1
	}
	if n > len(p) {
		n = len(p)
	}
	if n > s.total-s.pos {
		n = s.total - s.pos
	}
	if s.failAt > s.pos && n > s.failAt-s.pos {
		n = s.failAt - s.pos
	}
	if s.cancelAt > s.pos && !s.cancelled && n > s.cancelAt-s.pos {
		n = s.cancelAt - s.pos
	}
	m, err := io.ReadFull(s.src, p[:n])
	s.pos += m
	if m > 0 {
		s.dataReads++
	}
	if err != nil {
		// the source is shorter than announced (only possible for file sources): report EOF, flag it
		s.srcShort = true
		s.sawEOF = true
		return m, io.EOF
	}
	if s.failAt == s.pos && s.failWithData {
		s.failed = true
		return m, s.failErr
	}
	if s.pos == s.total && s.ch.style == "eof-with-data" && s.failAt < 0 {
		s.sawEOF = true
		return m, io.EOF
	}
	return m, nil
}

// scriptedFile is a filesystem.File whose Read goes through a scriptReader over the real file.
type scriptedFile struct {
	filesystem.File
	rd *scriptReader
}

func (f *scriptedFile) Read(p []byte) (int, error) { return f.rd.Read(p) }

// recHash decorates a standard hash.Hash given to NewBespokeHashingAlgorithm: pure observation of
// how many absorbed bytes the object holds that no Reset has cleared yet.
type recHash struct {
	hash.Hash
	dirty  int64
	resets int
	sums   int
}

func (h *recHash) Write(p []byte) (int, error) {
	n, err := h.Hash.Write(p)
	h.dirty += int64(n)
	return n, err
}
func (h *recHash) Reset()              { h.dirty = 0; h.resets++; h.Hash.Reset() }
func (h *recHash) Sum(b []byte) []byte { h.sums++; return h.Hash.Sum(b) }
