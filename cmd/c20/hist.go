package main

import (
	"bytes"
	"context"
	"errors"
	"fmt"
	"io"
	"strings"

	"github.com/ARM-software/golang-utils/utils/hashing"

	"verif/internal/vrun"
)

// contentSpec is a deterministic description of a content (pure function of VERIF_SEED and the spec).
type contentSpec struct {
	Kind string `json:"kind"` // prng | zeros | ff | a | kat
	Len  int    `json:"len"`
	Idx  int    `json:"idx"` // PRNG stream index, or index into katInputs
}

func (c contentSpec) String() string { return fmt.Sprintf("%s:%d:%d", c.Kind, c.Len, c.Idx) }

func (m *monitor) bytesOf(c contentSpec) []byte {
	switch c.Kind {
	case "kat":
		return []byte(katInputs[c.Idx])
	case "zeros":
		return make([]byte, c.Len)
	case "ff":
		return bytes.Repeat([]byte{0xff}, c.Len)
	case "a":
		return bytes.Repeat([]byte{'a'}, c.Len)
	}
	rng := m.r.Rand("c20-content", c.Idx)
	b := make([]byte, c.Len)
	i := 0
	for ; i+8 <= len(b); i += 8 {
		v := rng.Uint64()
		b[i], b[i+1], b[i+2], b[i+3], b[i+4], b[i+5], b[i+6], b[i+7] = byte(v), byte(v>>8), byte(v>>16), byte(v>>24), byte(v>>32), byte(v>>40), byte(v>>48), byte(v>>56)
	}
	if i < len(b) {
		v := rng.Uint64()
		for ; i < len(b); i++ {
			b[i] = byte(v)
			v >>= 8
		}
	}
	return b
}

func katSpec(in string) contentSpec {
	for i, s := range katInputs {
		if s == in {
			return contentSpec{Kind: "kat", Len: len(s), Idx: i}
		}
	}
	panic("unknown kat input")
}

// step is one calculation on the hasher under test.
type step struct {
	Outcome      string      `json:"outcome"` // ok | fail | cancel
	K            int         `json:"k"`       // fail/cancel byte offset; -1 with cancel = context cancelled before the call
	API          string      `json:"api"`     // Calculate | CalculateWithContext | CalculateStringHash
	Content      contentSpec `json:"content"`
	Chunk        string      `json:"chunk"`
	ChunkSeed    int         `json:"chunk_seed"`
	FailErr      string      `json:"fail_err,omitempty"` // custom | unexpectedEOF
	FailWithData bool        `json:"fail_with_data,omitempty"`
}

func (s step) String() string {
	switch s.Outcome {
	case "ok":
		return fmt.Sprintf("ok[%s,%s,%s/%d]", s.API, s.Content, s.Chunk, s.ChunkSeed)
	case "fail":
		return fmt.Sprintf("fail@%d[%s,%s,%s/%d,%s,%v]", s.K, s.API, s.Content, s.Chunk, s.ChunkSeed, s.FailErr, s.FailWithData)
	}
	return fmt.Sprintf("cancel@%d[%s,%s,%s/%d]", s.K, s.API, s.Content, s.Chunk, s.ChunkSeed)
}

// histCase is a sequence of calculations on ONE hasher object.
type histCase struct {
	Part  string `json:"part"` // A (one-shot × chunking), M (minimal known-answer histories), E (exhaustive ≤3), S (sampled ≤6)
	Algo  string `json:"algo"`
	Ctor  string `json:"ctor"` // named = hashing.NewHashingAlgorithm(name); bespoke = NewBespokeHashingAlgorithm(observed standard hash)
	Steps []step `json:"steps"`
}

func (h histCase) canonical() string {
	var sb strings.Builder
	sb.WriteString(h.Part + "|" + h.Algo + "|" + h.Ctor)
	for _, s := range h.Steps {
		sb.WriteString("|" + s.String())
	}
	return sb.String()
}

type stepResult struct {
	Err          string `json:"err,omitempty"`
	Got          string `json:"got,omitempty"`
	Want         string `json:"want"`
	Delivered    int    `json:"bytes_delivered_by_reader"`
	ReadCalls    int    `json:"read_calls"`
	SawEOF       bool   `json:"reader_reached_eof"`
	Judged       bool   `json:"judged"`
	Pre          string `json:"pre,omitempty"`
	DirtyAfter   int64  `json:"observed_unreset_bytes_after,omitempty"`
	errored      bool
	deliveredAny bool
}

var errInjected = errors.New("c20: injected read failure")

// classifyPre summarises everything that happened on the hasher before the judged step.
func classifyPre(prev []stepResult, steps []step) (pre, cause string, midway bool) {
	t := &tracker{}
	for i, p := range prev {
		t.note(p.errored, steps[i].Outcome == "cancel", p.deliveredAny)
	}
	return t.pre()
}

// runHistory executes the case; returns the number of judged digests and whether the case met the
// non-triviality predicate of its part.
func (m *monitor) runHistory(hc histCase) (judged int, nontrivial bool) {
	a := algoByName(hc.Algo)
	if a == nil {
		m.r.Fatalf("unknown algorithm %q", hc.Algo)
	}
	var h hashing.IHash
	var rec *recHash
	var err error
	if hc.Ctor == "bespoke" {
		rec = &recHash{Hash: a.New()}
		h, err = hashing.NewBespokeHashingAlgorithm(rec)
	} else {
		h, err = hashing.NewHashingAlgorithm(a.Name)
	}
	if err != nil || h == nil {
		m.r.Inconclusive("constructor failed for " + a.Name)
		return 0, false
	}
	results := make([]stepResult, 0, len(hc.Steps))
	var held []heldDigest
	witness := func() any {
		return map[string]any{"seed": m.r.Seed, "case": hc, "results": results,
			"how": "steps run in order on one hasher object; a judged step's digest is compared with the one-shot reference of that step's own bytes"}
	}
	defer func() {
		if p := recover(); p != nil {
			m.r.Violation(vrun.Sig{"ep": "Calculate", "effect": "panic", "pre": "any"}, fmt.Sprintf("%s: calculation panicked: %v", a.Name, p), witness())
		}
	}()
	for i, st := range hc.Steps {
		data := m.bytesOf(st.Content)
		want := a.Ref(data)
		res := stepResult{Want: want}
		ctx := context.Background()
		var cancel context.CancelFunc = func() {}
		var rd *scriptReader
		var reader io.Reader
		if isNativeStyle(st.Chunk) && st.Outcome == "ok" {
			switch st.Chunk {
			case "bytes.Reader":
				reader = bytes.NewReader(data)
			case "bytes.Reader-after-header":
				header := bytes.Repeat([]byte{0xa5, 'H'}, 1+st.ChunkSeed%32)
				br := bytes.NewReader(append(append([]byte{}, header...), data...))
				_, _ = io.CopyN(io.Discard, br, int64(len(header)))
				reader = br
			case "seek-refusing":
				reader = noSeek{bytes.NewReader(data)}
			default:
				reader = strings.NewReader(string(data))
			}
		} else {
			style := st.Chunk
			if isNativeStyle(style) {
				style = "fill"
			}
			rd = newScriptReader(bytes.NewReader(data), len(data), newChunker(style, m.r.Rand("c20-chunk", st.ChunkSeed)))
			reader = rd
		}
		switch st.Outcome {
		case "fail":
			rd.failAt = st.K
			rd.failErr = errInjected
			switch st.FailErr {
			case "unexpectedEOF":
				rd.failErr = io.ErrUnexpectedEOF
			case "wrappedEOF":
				rd.failErr = fmt.Errorf("connection reset by peer: %w", io.EOF)
			}
			rd.failWithData = st.FailWithData
		case "cancel":
			ctx, cancel = context.WithCancel(ctx)
			if st.K < 0 {
				cancel()
			} else {
				rd.cancelAt = st.K
				rd.cancel = cancel
			}
		default:
			if st.API == "CalculateWithContext" && st.ChunkSeed%2 == 1 {
				ctx, cancel = context.WithCancel(ctx) // live cancellable context, never cancelled during the call
			}
		}
		var got string
		var cerr error
		switch st.API {
		case "Calculate":
			got, cerr = h.Calculate(reader)
		case "CalculateWithContext":
			got, cerr = h.CalculateWithContext(ctx, reader)
		case "CalculateStringHash":
			rd = nil // the helper builds its own strings.Reader
			// an empty result is this helper's way of reporting an error: for a healthy input it is judged like any other
			// digest (it is not the reference digest)
			got = hashing.CalculateStringHash(h, string(data))
		default:
			m.r.Fatalf("unknown api %q", st.API)
		}
		cancel()
		res.Got = got
		if cerr != nil {
			res.Err = cerr.Error()
			res.errored = true
		}
		fully := true
		if rd != nil {
			res.Delivered, res.ReadCalls, res.SawEOF = rd.pos, rd.calls, rd.sawEOF
			res.deliveredAny = rd.pos > 0
			fully = rd.sawEOF && rd.pos == len(data)
			m.maxBuf.max(int64(rd.maxBuf))
			m.readCalls.Add(int64(rd.calls))
			m.zeroReads.Add(int64(rd.zeroReads))
		}
		if rec != nil {
			res.DirtyAfter = rec.dirty
		}
		ep := st.API
		judge := false
		switch st.Outcome {
		case "ok":
			if cerr == nil {
				judge = true
			} else {
				m.r.Inconclusive("ok step returned an error (healthy reader, live context): outside the property")
			}
		case "fail":
			if cerr != nil {
				m.failedSteps.Add(1)
				if res.deliveredAny {
					m.failedMid.Add(1)
				}
			} else {
				m.failNil.Add(1)
				// the reader failed before the end of the content and a digest comes back as if nothing had happened:
				// it is "the digest returned for" this content, and it is not its reference digest
				if got != want {
					m.r.Violation(vrun.Sig{"ep": ep, "effect": "digest-of-a-truncated-content-returned-without-error", "pre": "reader fails with " + st.FailErr},
						fmt.Sprintf("%s: the reader failed after %d of %d bytes (%s) yet %s returned the digest %s with a nil error (reference digest of the content: %s)", a.Name, res.Delivered, len(data), st.FailErr, st.API, got, want), witness())
				}
			}
		case "cancel":
			if cerr != nil {
				m.cancelledSteps.Add(1)
				if res.deliveredAny {
					m.cancelledMid.Add(1)
				}
			} else if fully {
				judge = true // all bytes were delivered and success reported: it is a digest "returned for a content"
				m.cancelCompleted.Add(1)
			} else {
				m.cancelNil.Add(1)
			}
		}
		if rec != nil && cerr != nil {
			m.obsFailedObserved.Add(1)
			if rec.dirty > 0 {
				m.obsDirtyAfterFail.Add(1)
				m.maxDirty.max(rec.dirty)
			}
		}
		if judge {
			pre, cause, midway := classifyPre(results, hc.Steps[:i])
			res.Judged, res.Pre = true, pre
			judged++
			m.count(pre, cause)
			if hc.Part == "A" {
				if rd != nil && rd.dataReads >= 2 {
					nontrivial = true
				}
			} else if midway {
				nontrivial = true
			}
			results = append(results, res)
			if st.Content.Kind == "kat" {
				if kv, ok := a.KAT[katInputs[st.Content.Idx]]; ok {
					m.katCompared.Add(1)
					if got != kv {
						m.r.Violation(vrun.Sig{"ep": "Calculate", "pre": pre, "cause": cause, "effect": "wrong digest"},
							fmt.Sprintf("%s %s(%q) = %s, published vector %s [%s (%s), step %d of %d on one hasher]", a.Name, ep, head(katInputs[st.Content.Idx]), got, kv, pre, cause, i+1, len(hc.Steps)), witness())
						continue
					}
				}
			}
			if got != want {
				m.r.Violation(vrun.Sig{"ep": "Calculate", "pre": pre, "cause": cause, "effect": "wrong digest"},
					fmt.Sprintf("%s %s(%s, chunking %s) = %s, reference %s [%s (%s), step %d of %d on one hasher]", a.Name, ep, st.Content, st.Chunk, got, want, pre, cause, i+1, len(hc.Steps)), witness())
			} else {
				held = append(held, heldDigest{got: got, want: want, step: i + 1})
			}
			continue
		}
		results = append(results, res)
	}
	// a digest is a value: the ones which were right when they came back are looked at once more after everything else
	// that was calculated on the same hasher since
	for _, h := range held {
		m.heldRechecked.Add(1)
		if h.got != h.want {
			m.r.Violation(vrun.Sig{"ep": "Calculate", "effect": "digest-changed-after-it-was-returned"},
				fmt.Sprintf("%s: the digest returned by step %d of %d was the reference %s when it came back and reads %s after the later calculations on the same hasher", a.Name, h.step, len(hc.Steps), h.want, h.got), witness())
			break
		}
	}
	return
}

type heldDigest struct {
	got, want string
	step      int
}
