// C06 — the filesystem API follows its documented semantics on every backend.
//
// Lock-step execution of generated programs (1..40 calls over a small alphabet of colliding paths) on
// the OS backend (sandbox), the in-memory backend and a reference model of the documented semantics
// (model.go). After every call the result (success/failure, value) and the full tree dump of both
// backends are compared with the model's set of acceptable outcomes and with each other (sentence one,
// conflict-free calls only); for every call — conflict-free or not — the monitors at the afero boundary
// check termination (operation budget), handle balance and that nothing but the call's destination
// changed (sentence two). Programs run in child processes (cwd inside an empty sandbox, memory limit).
package main

import (
	"context"
	"encoding/json"
	"fmt"
	"math/rand/v2"
	"os"
	"path/filepath"
	"sort"
	"strings"
	"sync/atomic"
	"syscall"
	"time"

	"github.com/spf13/afero"

	"github.com/ARM-software/golang-utils/utils/commonerrors"
	"github.com/ARM-software/golang-utils/utils/filesystem"
	"github.com/ARM-software/golang-utils/utils/hashing"

	"verif/internal/fsmon"
	"verif/internal/vrun"
)

var rawPaths = []string{"a", "b", "c.txt", "a/a", "a/b", "a/c.txt", "b/a", "b/c.txt", "a/a/b", "a/a/c.txt", "a/", "a/b/", "a//b", "b/", "a/c.txt/", "b/a/"}
var contents = []string{"x", "yy", "zzz", "w", ""}
var allOps = []string{"WriteFile", "ReadFile", "MkDir", "Touch", "Ls", "LsRecursive", "ListDirTree", "SubDirectories", "FindAll", "Exists", "IsFile", "IsDir", "IsEmpty",
	"GetFileSize", "FileHash", "Rm", "CleanDir", "Copy", "CopyToFile", "CopyToDirectory", "Move"}

type backend struct {
	name string
	base afero.Fs
	root string
	mon  *fsmon.Monitor
	vfs  filesystem.FS
	// per-call monitoring state
	ops      atomic.Int64
	budget   atomic.Int64
	blown    atomic.Bool
	cancelAt atomic.Int64
	cancel   atomic.Value // func()
}

var errBudget = fmt.Errorf("verif: operation budget of the call exhausted (injected)")

func newBackend(name string, base afero.Fs, root string, t filesystem.FilesystemType) *backend {
	b := &backend{name: name, base: base, root: root, mon: fsmon.NewMonitor(false)}
	b.mon.Before = func(e *fsmon.Event) {
		n := b.ops.Add(1)
		if bud := b.budget.Load(); bud > 0 && n > bud {
			b.blown.Store(true)
			e.Inject = errBudget
			return
		}
		if ca := b.cancelAt.Load(); ca > 0 && n == ca {
			if f, ok := b.cancel.Load().(func()); ok && f != nil {
				f()
			}
		}
	}
	b.vfs = filesystem.NewVirtualFileSystem(fsmon.New(base, name, b.mon), t, filesystem.IdentityPathConverterFunc)
	return b
}

func (b *backend) abs(raw string) string {
	// keep trailing / doubled separators of the raw argument
	return b.root + "/" + raw
}

func (b *backend) dump() tree {
	t := tree{}
	_ = afero.Walk(b.base, b.root, func(p string, info os.FileInfo, err error) error {
		if err != nil || p == b.root {
			return nil
		}
		rel, _ := filepath.Rel(b.root, p)
		rel = filepath.ToSlash(rel)
		if info.IsDir() {
			t[rel] = node{Dir: true}
		} else {
			d, _ := afero.ReadFile(b.base, p)
			t[rel] = node{Data: string(d)}
		}
		return nil
	})
	return t
}

func (b *backend) materialise(t tree) {
	keys := make([]string, 0, len(t))
	for k := range t {
		keys = append(keys, k)
	}
	sort.Strings(keys)
	for _, k := range keys {
		p := filepath.Join(b.root, filepath.FromSlash(k))
		if t[k].Dir {
			_ = b.base.MkdirAll(p, 0o755)
		} else {
			_ = b.base.MkdirAll(filepath.Dir(p), 0o755)
			_ = afero.WriteFile(b.base, p, []byte(t[k].Data), 0o644)
		}
	}
}

type result struct {
	OK    bool     `json:"ok"`
	Kind  string   `json:"kind,omitempty"`
	Err   string   `json:"err,omitempty"`
	Val   string   `json:"val"`
	Blown bool     `json:"budget_exhausted,omitempty"`
	Leak  []string `json:"open_handles,omitempty"`
	Ops   int64    `json:"ops"`
	Hung  bool     `json:"hung,omitempty"`
}

var kindTable = map[string]error{"not-found": commonerrors.ErrNotFound, "invalid": commonerrors.ErrInvalid, "exists": commonerrors.ErrExists, "conflict": commonerrors.ErrConflict,
	"empty": commonerrors.ErrEmpty, "undefined": commonerrors.ErrUndefined, "cancelled": commonerrors.ErrCancelled, "timeout": commonerrors.ErrTimeout, "unexpected": commonerrors.ErrUnexpected,
	"not-implemented": commonerrors.ErrNotImplemented, "eof": commonerrors.ErrEOF, "too-large": commonerrors.ErrTooLarge, "unsupported": commonerrors.ErrUnsupported}

func kindsOf(err error) string {
	var l []string
	for k, e := range kindTable {
		if commonerrors.Any(err, e) {
			l = append(l, k)
		}
	}
	sort.Strings(l)
	if len(l) == 0 {
		return "none"
	}
	return strings.Join(l, "+")
}

func (b *backend) relListWithout(l []string, drop string) string {
	var out []string
	for _, p := range l {
		q := filepath.ToSlash(filepath.Clean(p))
		q = strings.TrimPrefix(q, filepath.ToSlash(filepath.Clean(b.root)))
		q = strings.TrimPrefix(q, "/")
		if q == drop {
			continue // whether the listed directory itself is reported is unspecified
		}
		out = append(out, q)
	}
	return setVal(out)
}

func (b *backend) relList(l []string) string {
	var out []string
	for _, p := range l {
		q := filepath.ToSlash(filepath.Clean(p))
		q = strings.TrimPrefix(q, filepath.ToSlash(filepath.Clean(b.root)))
		q = strings.TrimPrefix(q, "/")
		out = append(out, q)
	}
	return setVal(out)
}

func (b *backend) exec(c call, entries int) result {
	b.ops.Store(0)
	b.blown.Store(false)
	b.budget.Store(int64(2000 * (entries + 10)))
	ctx, cancel := context.WithCancel(context.Background())
	defer cancel()
	b.cancel.Store(func() { cancel() })
	b.cancelAt.Store(int64(c.Ctx))
	fs := b.vfs
	A, B := b.abs(c.A), b.abs(c.B)
	var err error
	val := ""
	done := make(chan struct{})
	go func() {
		defer close(done)
		switch c.Op {
		case "WriteFile":
			if c.Ctx > 0 {
				err = fs.WriteFileWithContext(ctx, A, []byte(c.Data), 0o644)
			} else {
				err = fs.WriteFile(A, []byte(c.Data), 0o644)
			}
		case "ReadFile":
			var d []byte
			if c.Ctx > 0 {
				d, err = fs.ReadFileWithContext(ctx, A)
			} else {
				d, err = fs.ReadFile(A)
			}
			val = string(d)
		case "MkDir":
			if c.A == "" {
				err = fs.MkDir("")
			} else {
				err = fs.MkDir(A)
			}
		case "Touch":
			err = fs.Touch(A)
		case "Ls":
			var l []string
			l, err = fs.Ls(A)
			val = setVal(l)
		case "LsRecursive":
			var l []string
			l, err = fs.LsRecursive(ctx, A, c.Flag)
			val = b.relListWithout(l, cl(c.A))
		case "ListDirTree":
			var l []string
			if c.Ctx > 0 {
				err = fs.ListDirTreeWithContext(ctx, A, &l)
			} else {
				err = fs.ListDirTree(A, &l)
			}
			val = b.relListWithout(l, cl(c.A))
		case "SubDirectories":
			var l []string
			if c.Ctx > 0 {
				l, err = fs.SubDirectoriesWithContext(ctx, A)
			} else {
				l, err = fs.SubDirectories(A)
			}
			val = setVal(l)
		case "FindAll":
			var l []string
			l, err = fs.FindAll(A, "txt")
			var files []string
			for _, p := range l {
				if isDir, _ := b.base.Stat(p); isDir != nil && isDir.IsDir() {
					continue // directories carrying the extension are a don't-care region
				}
				files = append(files, p)
			}
			val = b.relList(files)
		case "Exists":
			val = boolS(fs.Exists(A))
		case "IsFile":
			var v bool
			v, err = fs.IsFile(A)
			val = boolS(v)
		case "IsDir":
			var v bool
			v, err = fs.IsDir(A)
			val = boolS(v)
		case "IsEmpty":
			var v bool
			v, err = fs.IsEmpty(A)
			val = boolS(v)
		case "GetFileSize":
			var n int64
			n, err = fs.GetFileSize(A)
			val = itoa(int(n))
		case "FileHash":
			if c.Ctx > 0 {
				val, err = fs.FileHashWithContext(ctx, hashing.HashSha256, A)
			} else {
				val, err = fs.FileHash(hashing.HashSha256, A)
			}
		case "Rm":
			if c.Ctx > 0 {
				err = fs.RemoveWithContext(ctx, A)
			} else {
				err = fs.Rm(A)
			}
		case "CleanDir":
			if c.Ctx > 0 {
				err = fs.CleanDirWithContext(ctx, A)
			} else {
				err = fs.CleanDir(A)
			}
		case "Copy":
			if c.Ctx > 0 {
				err = fs.CopyWithContext(ctx, A, B)
			} else {
				err = fs.Copy(A, B)
			}
		case "CopyToFile":
			if c.Ctx > 0 {
				err = fs.CopyToFileWithContext(ctx, A, B)
			} else {
				err = fs.CopyToFile(A, B)
			}
		case "CopyToDirectory":
			if c.Ctx > 0 {
				err = fs.CopyToDirectoryWithContext(ctx, A, B)
			} else {
				err = fs.CopyToDirectory(A, B)
			}
		case "Move":
			if c.Ctx > 0 {
				err = fs.MoveWithContext(ctx, A, B)
			} else {
				err = fs.Move(A, B)
			}
		}
	}()
	r := result{}
	select {
	case <-done:
	case <-time.After(60 * time.Second):
		// make the call unwind: every further backend operation fails
		b.budget.Store(1)
		select {
		case <-done:
			r.Blown = true
		case <-time.After(30 * time.Second):
			r.Hung = true
			return r
		}
	}
	r.OK = err == nil
	if err != nil {
		r.Kind = kindsOf(err)
		r.Err = trunc(err.Error(), 160)
	}
	r.Val = val
	r.Blown = r.Blown || b.blown.Load()
	r.Ops = b.ops.Load()
	r.Leak = b.mon.OpenHandles()
	b.budget.Store(0)
	b.cancelAt.Store(0)
	return r
}

func trunc(s string, n int) string {
	if len(s) > n {
		return s[:n]
	}
	return s
}

// ---------------------------------------------------------------------------------------------

type program struct {
	Index    int    `json:"index"`
	Stream   string `json:"stream"` // "model" (conflict-free, compared with the model) | "wild" (anything, invariants only)
	Initial  tree   `json:"-"`
	InitialS string `json:"initial_tree"`
	Calls    []call `json:"calls"`
}

func genInitial(rng *rand.Rand) tree {
	t := tree{}
	n := rng.IntN(7)
	for i := 0; i < n; i++ {
		p := cl(rawPaths[rng.IntN(10)])
		if t.prefixConflict(p) || t.exists(p) {
			continue
		}
		if strings.HasSuffix(p, ".txt") || rng.IntN(3) == 0 {
			if t.isDir(parent(p)) || !t.exists(parent(p)) {
				t.mkdirAll(parent(p))
				t[p] = node{Data: contents[rng.IntN(len(contents))]}
			}
		} else {
			t.mkdirAll(p)
		}
	}
	return t
}

func genCall(rng *rand.Rand) call {
	c := call{Op: allOps[rng.IntN(len(allOps))]}
	c.A = rawPaths[rng.IntN(len(rawPaths))]
	switch c.Op {
	case "WriteFile":
		c.Data = contents[rng.IntN(len(contents))]
	case "LsRecursive":
		c.Flag = rng.IntN(2) == 0
	case "Copy", "CopyToFile", "CopyToDirectory", "Move":
		c.B = rawPaths[rng.IntN(len(rawPaths))]
		if rng.IntN(6) == 0 {
			c.B = c.A
		}
		if rng.IntN(8) == 0 {
			// a destination one or two levels beneath the source (with intermediate directories that may be missing)
			segs := []string{"a", "b", "c.txt"}
			c.B = strings.TrimSuffix(c.A, "/") + "/" + segs[rng.IntN(3)]
			if rng.IntN(3) != 0 {
				c.B += "/" + segs[rng.IntN(3)]
			}
		}
	case "MkDir":
		if rng.IntN(25) == 0 {
			c.A = ""
		}
	}
	return c
}

func genProgram(r *vrun.Run, idx int) program {
	rng := r.Rand("c06", idx)
	p := program{Index: idx, Stream: "model"}
	if idx%4 == 3 {
		p.Stream = "wild"
	}
	p.Initial = genInitial(rng)
	p.InitialS = p.Initial.String()
	n := 1 + rng.IntN(40)
	for i := 0; i < n; i++ {
		c := genCall(rng)
		if p.Stream == "wild" && rng.IntN(10) == 0 {
			switch c.Op {
			case "WriteFile", "ReadFile", "ListDirTree", "SubDirectories", "FileHash", "Rm", "CleanDir", "Copy", "CopyToFile", "CopyToDirectory", "Move":
				c.Ctx = 1 + rng.IntN(40)
			}
		}
		p.Calls = append(p.Calls, c)
	}
	return p
}

func directedPrograms() []program {
	f := func(d string) node { return node{Data: d} }
	dir := node{Dir: true}
	return []program{
		{Stream: "model", Initial: tree{}, Calls: []call{{Op: "WriteFile", A: "a/c.txt", Data: "x"}}},
		{Stream: "model", Initial: tree{}, Calls: []call{{Op: "Touch", A: "a/c.txt"}}},
		{Stream: "wild", Initial: tree{"b": f("yy")}, Calls: []call{{Op: "MkDir", A: "b/a"}}},
		{Stream: "wild", Initial: tree{"a": dir, "a/a": f(""), "a/b": f("x")}, Calls: []call{{Op: "CopyToDirectory", A: "a/", B: "a/a/c.txt"}}},
		{Stream: "model", Initial: tree{"a": dir, "a/a": dir, "a/a/c.txt": f("w"), "b": dir, "b/a": dir, "b/a/a": dir, "b/a/a/b": f("zzz")}, Calls: []call{{Op: "Move", A: "a/", B: "b/a/"}}},
		{Stream: "model", Initial: tree{"a": dir, "a/a": dir, "a/a/c.txt": f("w"), "b": dir, "b/a": dir, "b/a/a": dir, "b/a/a/b": f("zzz")}, Calls: []call{{Op: "Move", A: "a", B: "b/a"}}},
	}
}

func entriesChanged(before, after tree, keep func(p string) bool) []string {
	var out []string
	for p, n := range before {
		if !keep(p) {
			continue
		}
		m, ok := after[p]
		switch {
		case !ok:
			out = append(out, "lost "+p)
		case m.Dir != n.Dir:
			out = append(out, "kind-changed "+p)
		case !n.Dir && m.Data != n.Data:
			out = append(out, fmt.Sprintf("content-changed %s (%q -> %q)", p, n.Data, m.Data))
		}
	}
	for p := range after {
		if _, ok := before[p]; !ok && keep(p) {
			out = append(out, "created "+p)
		}
	}
	sort.Strings(out)
	return out
}

func matches(o outcome, r result, dump tree) (bool, string) {
	if !o.AnyKind && o.OK != r.OK {
		if o.OK {
			return false, "result:expected-success-got-" + r.Kind
		}
		return false, "result:expected-failure-got-success"
	}
	if o.ValSpec && (r.OK || o.AnyKind) && o.Val != r.Val {
		if r.OK || r.Val != "" {
			return false, "value"
		}
	}
	if o.Tree.String() != dump.String() {
		return false, treeDiffKind(o.Tree, dump)
	}
	return true, ""
}

func treeDiffKind(want, got tree) string {
	lost, extra, content := false, false, false
	for p, n := range want {
		m, ok := got[p]
		if !ok {
			lost = true
		} else if m.Dir != n.Dir || m.Data != n.Data {
			content = true
		}
	}
	for p := range got {
		if _, ok := want[p]; !ok {
			extra = true
		}
	}
	var l []string
	if lost {
		l = append(l, "entries-lost")
	}
	if extra {
		l = append(l, "entries-extra")
	}
	if content {
		l = append(l, "content-or-kind-changed")
	}
	return "tree:" + strings.Join(l, "+")
}

func runProgram(r *vrun.Run, p program, scratch string) {
	osRoot, err := os.MkdirTemp(scratch, "sb-")
	if err != nil {
		r.Fatalf("scratch: %v", err)
	}
	defer os.RemoveAll(osRoot)
	bo := newBackend("os", filesystem.NewExtendedOsFs(), osRoot, filesystem.StandardFS)
	bm := newBackend("mem", afero.NewMemMapFs(), "/sb", filesystem.InMemoryFS)
	_ = bm.base.MkdirAll("/sb", 0o755)
	bo.materialise(p.Initial)
	bm.materialise(p.Initial)
	model := p.Initial.clone()
	canon := p.Stream + "|" + p.InitialS
	nontrivial := false
	for _, c := range p.Calls {
		canon += fmt.Sprintf("%s(%q,%q,%q,%v,%d);", c.Op, c.A, c.B, c.Data, c.Flag, c.Ctx)
	}
	defer func() {
		r.Case(canon, nontrivial)
		if nontrivial && p.Index%97 == 5 && r.WantSample() {
			r.Sample(map[string]any{"program_index": p.Index, "stream": p.Stream, "initial_tree": p.InitialS, "calls": p.Calls})
		}
	}()
	for i, c := range p.Calls {
		exp := expect(model, c)
		preOS, preMem := bo.dump(), bm.dump()
		r.Progress(map[string]any{"program_index": p.Index, "call_index": i, "call": c, "tree_before": preMem.String(), "src": exp.SrcClass, "dst": exp.DstClass, "overlap": exp.Overlap})
		ro := bo.exec(c, len(preOS))
		rm := bm.exec(c, len(preMem))
		postOS, postMem := bo.dump(), bm.dump()
		r.Obs("calls_executed", 2)
		r.ObsSet("op_precondition_classes", c.Op+"|"+exp.SrcClass+"|"+exp.DstClass+"|"+exp.Overlap)
		if c.Op == "Copy" || c.Op == "Move" || c.Op == "CopyToDirectory" || c.Op == "CopyToFile" {
			if exp.Overlap != "disjoint" || strings.HasPrefix(exp.DstClass, "file") || strings.Contains(exp.DstClass, "dir") {
				nontrivial = true
			}
		}
		sig := func(who, kind string) vrun.Sig {
			return vrun.Sig{"op": c.Op, "src": exp.SrcClass, "dst": exp.DstClass, "overlap": exp.Overlap, "who": who, "deviation": kind}
		}
		witness := func() map[string]any {
			return map[string]any{"program": p, "failing_call_index": i, "call": c, "model_state_before": model.String(), "expectation": describe(exp),
				"os":  map[string]any{"result": ro, "tree_before": preOS.String(), "tree_after": postOS.String()},
				"mem": map[string]any{"result": rm, "tree_before": preMem.String(), "tree_after": postMem.String()}}
		}
		// ---- sentence two: invariants, whatever the arguments
		stop := false
		for _, x := range []struct {
			b    *backend
			res  result
			pre  tree
			post tree
		}{{bo, ro, preOS, postOS}, {bm, rm, preMem, postMem}} {
			r.Obs("invariant_checks", 1)
			if x.res.Hung {
				r.Violation(sig(x.b.name, "does-not-terminate(hung)"), fmt.Sprintf("%s(%q,%q) on %s did not return even after every backend operation was made to fail", c.Op, c.A, c.B, x.b.name), witness())
				return
			}
			if x.res.Blown {
				r.Violation(sig(x.b.name, "unbounded-work"), fmt.Sprintf("%s(%q,%q) on %s exceeded the budget of %d backend operations on a tree of %d entries", c.Op, c.A, c.B, x.b.name, 2000*(len(x.pre)+10), len(x.pre)), witness())
				stop = true
				continue
			}
			if len(x.res.Leak) > 0 {
				s := sig(x.b.name, "handle-leak")
				s["outcome"] = map[bool]string{true: "success", false: "failure"}[x.res.OK]
				if c.Ctx > 0 {
					s["outcome"] = "cancelled"
				}
				r.Violation(s, fmt.Sprintf("%s(%q,%q) on %s returned with %d handle(s) still open: %v", c.Op, c.A, c.B, x.b.name, len(x.res.Leak), x.res.Leak), witness())
				stop = true
			}
			// nothing but the destination changes
			dest := exp.Dest
			a := cl(c.A)
			changed := entriesChanged(x.pre, x.post, func(q string) bool {
				for _, d := range dest {
					if under(q, d) {
						return false
					}
				}
				return true
			})
			if len(changed) > 0 {
				kind := "changed-outside-destination"
				if (c.Op == "Copy" || c.Op == "CopyToFile" || c.Op == "CopyToDirectory") && allUnder(changed, a) {
					kind = "copy-changed-its-source"
				}
				sg := sig(x.b.name, kind)
				sg["change"] = strings.Fields(changed[0])[0]
				r.Violation(sg, fmt.Sprintf("%s(%q,%q) on %s: %s", c.Op, c.A, c.B, x.b.name, strings.Join(changed[:min(3, len(changed))], "; ")), witness())
				stop = true
			}
			// source and destination overlap, the destination lying inside the source: a call which refuses such
			// arguments has changed nothing at all (the source is everything the destination could be created in)
			same := x.pre.String() == x.post.String()
			if !same && c.Op == "CopyToDirectory" {
				// mkdir -p of the destination directory comes first (as in `mkdir -p b && cp -r a b`): it and its ancestors may have been created
				same = true
				b2 := cl(c.B)
				for q, n := range x.post {
					if m, ok := x.pre[q]; ok {
						if m.Dir != n.Dir || m.Data != n.Data {
							same = false
						}
						continue
					}
					if !(n.Dir && (q == b2 || under(b2, q))) {
						same = false
					}
				}
				for q := range x.pre {
					if _, ok := x.post[q]; !ok {
						same = false
					}
				}
			}
			srcIsDir := false
			if n, ok := x.pre[a]; ok && n.Dir {
				srcIsDir = true // a destination beneath a FILE is a kind conflict, not an overlap
			}
			if !srcIsDir || x.pre.prefixConflict(cl(c.B)) || x.pre.isFile(cl(c.B)) {
				same = true // a file on the way to the destination: kind conflict
				srcIsDir = false
			}
			if !x.res.OK && c.Ctx == 0 && strings.Contains(exp.Unspecified, "inside the source") && !same {
				r.Obs("refused_calls_into_their_own_source_judged", 1)
				sg := sig(x.b.name, "refused-call-into-its-own-source-changed-it")
				r.Violation(sg, fmt.Sprintf("%s(%q,%q) on %s failed (%s) but the tree changed: before %s after %s", c.Op, c.A, c.B, x.b.name, x.res.Kind, x.pre.String(), x.post.String()), witness())
				stop = true
			} else if !x.res.OK && c.Ctx == 0 && srcIsDir && strings.Contains(exp.Unspecified, "inside the source") {
				r.Obs("refused_calls_into_their_own_source_judged", 1)
			}
			// a copy never changes its source (also when they overlap): pre-existing source entries outside the destination subtree
			if c.Op == "Copy" || c.Op == "CopyToFile" || c.Op == "CopyToDirectory" {
				b2 := cl(c.B)
				ch := entriesChanged(x.pre, x.post, func(q string) bool {
					_, existed := x.pre[q]
					return existed && under(q, a) && a != "" && !(under(q, b2) && b2 != a && !under(a, b2))
				})
				var real []string
				for _, s := range ch {
					if !strings.HasPrefix(s, "created ") {
						real = append(real, s)
					}
				}
				if len(real) > 0 && a != b2 {
					sg := sig(x.b.name, "copy-changed-its-source")
					sg["change"] = strings.Fields(real[0])[0]
					r.Violation(sg, fmt.Sprintf("%s(%q,%q) on %s: %s", c.Op, c.A, c.B, x.b.name, strings.Join(real[:min(3, len(real))], "; ")), witness())
					stop = true
				}
			}
		}
		if stop {
			return
		}
		// ---- sentence one: conflict-free calls of the model stream
		if p.Stream != "model" || c.Ctx > 0 {
			// keep going from whatever the OS backend holds, if both backends still agree
			if postOS.String() != postMem.String() {
				return
			}
			model = postOS
			continue
		}
		if exp.Conflict {
			r.Obs("calls_skipped_(kind_conflict)", 1)
			if postOS.String() != postMem.String() {
				return
			}
			model = postOS
			continue
		}
		r.Obs("conflict_free_calls_compared", 1)
		agree := ro.OK == rm.OK && ro.Val == rm.Val && postOS.String() == postMem.String() && (ro.OK || ro.Kind == rm.Kind)
		if exp.Unspecified != "" {
			r.ObsSet("unspecified_points_(backend_agreement_only)", c.Op+": "+exp.Unspecified)
			if !agree {
				r.Violation(sig("backends-disagree", disagreeKind(ro, rm, postOS, postMem)), fmt.Sprintf("%s(%q,%q): the backends disagree where the documentation is silent: os=%s mem=%s", c.Op, c.A, c.B, short(ro), short(rm)), witness())
				return
			}
			model = postOS
			continue
		}
		okOS, whyOS := anyMatch(exp.Outcomes, ro, postOS)
		okMem, whyMem := anyMatch(exp.Outcomes, rm, postMem)
		switch {
		case okOS && okMem && agree:
			model = postOS
		case okOS && okMem:
			r.Violation(sig("backends-disagree", disagreeKind(ro, rm, postOS, postMem)), fmt.Sprintf("%s(%q,%q): both results are acceptable to the model but the backends disagree: os=%s mem=%s", c.Op, c.A, c.B, short(ro), short(rm)), witness())
			return
		case !okOS && !okMem && agree:
			r.Violation(sig("both-backends", whyOS), fmt.Sprintf("%s(%q,%q) deviates from the documented semantics on both backends (%s): %s", c.Op, c.A, c.B, whyOS, short(ro)), witness())
			model = postOS // re-synchronise and carry on
		case !okOS && !okMem:
			r.Violation(sig("both-backends-differently", whyOS+"|"+whyMem), fmt.Sprintf("%s(%q,%q) deviates on both backends, differently: os=%s (%s) mem=%s (%s)", c.Op, c.A, c.B, short(ro), whyOS, short(rm), whyMem), witness())
			return
		case !okOS:
			r.Violation(sig("os", whyOS), fmt.Sprintf("%s(%q,%q) deviates on the OS backend (%s): os=%s mem=%s", c.Op, c.A, c.B, whyOS, short(ro), short(rm)), witness())
			return
		default:
			r.Violation(sig("mem", whyMem), fmt.Sprintf("%s(%q,%q) deviates on the in-memory backend (%s): os=%s mem=%s", c.Op, c.A, c.B, whyMem, short(ro), short(rm)), witness())
			return
		}
	}
}

func allUnder(changes []string, a string) bool {
	for _, s := range changes {
		f := strings.Fields(s)
		if len(f) < 2 || !under(f[1], a) || strings.HasPrefix(s, "created ") {
			return false
		}
	}
	return a != ""
}

func disagreeKind(ro, rm result, to, tm tree) string {
	switch {
	case ro.OK != rm.OK:
		return fmt.Sprintf("result:os-%s-mem-%s", okS(ro), okS(rm))
	case to.String() != tm.String():
		return "tree"
	case ro.Val != rm.Val:
		return "value"
	}
	return "error-kind:os-" + ro.Kind + "-mem-" + rm.Kind
}

func okS(r result) string {
	if r.OK {
		return "ok"
	}
	return r.Kind
}

func short(r result) string {
	if r.OK {
		return fmt.Sprintf("ok(%q)", trunc(r.Val, 40))
	}
	return "error[" + r.Kind + "]"
}

func anyMatch(os []outcome, r result, dump tree) (bool, string) {
	why := ""
	for _, o := range os {
		ok, w := matches(o, r, dump)
		if ok {
			return true, ""
		}
		if why == "" {
			why = w
		}
	}
	return false, why
}

func describe(e expectation) map[string]any {
	var outs []map[string]any
	for _, o := range e.Outcomes {
		outs = append(outs, map[string]any{"must_succeed": o.OK, "either": o.AnyKind, "value": o.Val, "value_specified": o.ValSpec, "tree": o.Tree.String()})
	}
	return map[string]any{"conflict": e.Conflict, "unspecified": e.Unspecified, "acceptable_outcomes": outs, "src_class": e.SrcClass, "dst_class": e.DstClass, "overlap": e.Overlap, "destination": e.Dest}
}

func main() {
	r := vrun.Start("C06", "exploration")
	r.Rule("one case = one generated program of 1..40 calls over 16 raw paths built from 3 names and 3 levels (incl. trailing and doubled separators; MkDir also with the empty path) and 5 contents (one empty) from a random initial tree, executed in lock step on the OS backend, the in-memory backend and the reference model; " +
		"3 of 4 programs are compared with the model after every conflict-free call (result, value, full tree dump; where the documentation is silent only backend agreement is required), 1 of 4 ('wild') allows kind conflicts and cancels 10% of the context-accepting calls from inside a backend operation and is judged on the invariants only (termination by operation budget, handle balance, nothing but the destination changed, copy leaves its source alone). " +
		"non-trivial = the program contains a copy/move whose destination pre-exists or overlaps its source; distinct = canonical program text.")
	r.Assume("the model in cmd/c06/model.go transcribes the interface documentation (mkdir -p, cp -r, mv, rm -rf, ls, touch); where it returns 'unspecified' only backend agreement is demanded",
		"termination is decided on logical work: 2000×(entries+10) backend operations per call, then every further operation of that call fails so that the recursion unwinds",
		"symbolic links are out of scope here (C04)", "listing order, mtimes and permissions are not compared")
	if _, _, isChild := r.Child(); !isChild && r.Replay == "" {
		r.OnChildFailure = func(progress, output string) bool {
			if progress == "" || !(strings.Contains(output, "fatal error:") || strings.Contains(output, "panic:")) {
				return false
			}
			var pr struct {
				Call call   `json:"call"`
				Tree string `json:"tree_before"`
				Src  string `json:"src"`
				Dst  string `json:"dst"`
				Ov   string `json:"overlap"`
				Idx  int    `json:"program_index"`
			}
			if json.Unmarshal([]byte(progress), &pr) != nil {
				return false
			}
			who := "unknown"
			if strings.Contains(output, "afero.(*MemMapFs)") {
				who = "mem"
			}
			head := output
			if i := strings.Index(head, "fatal error:"); i >= 0 {
				head = head[i:]
			} else if i := strings.Index(head, "panic:"); i >= 0 {
				head = head[i:]
			}
			r.Violation(vrun.Sig{"op": pr.Call.Op, "src": pr.Src, "dst": pr.Dst, "overlap": pr.Ov, "who": who, "deviation": "process-crash"},
				fmt.Sprintf("%s(%q,%q) crashed the process: %s", pr.Call.Op, pr.Call.A, pr.Call.B, trunc(strings.SplitN(head, "\n", 2)[0], 120)),
				map[string]any{"program": map[string]any{"index": pr.Idx}, "call": pr.Call, "tree_before": pr.Tree, "crash_output_head": trunc(head, 3000)})
			return true
		}
		r.SpawnChildren(16, 16, nil, 30*time.Minute)
		r.Require("conflict_free_calls_compared", int64(r.Pick(8000, 300000)))
		r.Require("invariant_checks", int64(r.Pick(30000, 1000000)))
		r.Require("op_precondition_classes", 200)
		r.Finish()
	}
	// children: bounded address space so that a runaway recursion cannot take the machine down
	var rl syscall.Rlimit
	rl.Cur, rl.Max = 6<<30, 6<<30
	_ = syscall.Setrlimit(syscall.RLIMIT_AS, &rl)
	scratch := vrun.Scratch("c06")
	defer os.RemoveAll(scratch)
	cwd := filepath.Join(scratch, "cwd")
	_ = os.MkdirAll(cwd, 0o755)
	_ = os.Chdir(cwd)
	if r.Replay != "" {
		var wit struct {
			Program struct {
				Index int `json:"index"`
			} `json:"program"`
		}
		if err := r.ReadReplay(&wit); err != nil {
			r.Fatalf("replay: %v", err)
		}
		runProgram(r, genProgram(r, wit.Program.Index), scratch)
		r.Finish()
	}
	idx, n, _ := r.Child()
	total := r.Pick(6000, 60000)
	if idx == 0 {
		// directed programs: one minimal reproduction per known-finding class, so that every run re-observes them
		for di, d := range directedPrograms() {
			d.Index = -1 - di
			d.InitialS = d.Initial.String()
			runProgram(r, d, scratch)
		}
	}
	for i := idx; i < total; i += n {
		runProgram(r, genProgram(r, i), scratch)
	}
	if l, _ := os.ReadDir(cwd); len(l) > 0 {
		r.Violation(vrun.Sig{"deviation": "entries-created-in-the-working-directory"}, fmt.Sprintf("%d entries appeared in the working directory", len(l)), nil)
	}
	_ = os.RemoveAll(scratch)
	r.Finish()
}
