package main

import (
	"crypto/sha256"
	"encoding/hex"
	"path/filepath"
	"sort"
	"strings"
)

// The reference model of the documented semantics (mkdir -p, cp -r, mv, rm -rf, ls, touch).
// State: cleaned slash path relative to the sandbox root → node. The root ("") always exists.

type node struct {
	Dir  bool
	Data string
}

type tree map[string]node

func (t tree) clone() tree {
	c := make(tree, len(t))
	for k, v := range t {
		c[k] = v
	}
	return c
}

func (t tree) String() string {
	keys := make([]string, 0, len(t))
	for k := range t {
		keys = append(keys, k)
	}
	sort.Strings(keys)
	var b strings.Builder
	for _, k := range keys {
		if t[k].Dir {
			b.WriteString(k + "/\n")
		} else {
			b.WriteString(k + "=" + t[k].Data + "\n")
		}
	}
	return b.String()
}

func cl(p string) string {
	c := filepath.ToSlash(filepath.Clean("/" + p))
	return strings.TrimPrefix(c, "/")
}

func trailing(p string) bool { return strings.HasSuffix(p, "/") }

func parent(p string) string {
	if p == "" {
		return ""
	}
	i := strings.LastIndex(p, "/")
	if i < 0 {
		return ""
	}
	return p[:i]
}

func base(p string) string {
	i := strings.LastIndex(p, "/")
	return p[i+1:]
}

func join(a, b string) string {
	if a == "" {
		return b
	}
	return a + "/" + b
}

func (t tree) exists(p string) bool { _, ok := t[p]; return ok || p == "" }
func (t tree) isDir(p string) bool  { return p == "" || (t.exists(p) && t[p].Dir) }
func (t tree) isFile(p string) bool { n, ok := t[p]; return ok && !n.Dir }

func under(p, d string) bool { return d == "" || p == d || strings.HasPrefix(p, d+"/") }

func (t tree) below(d string) []string {
	var l []string
	for p := range t {
		if p != d && under(p, d) {
			l = append(l, p)
		}
	}
	sort.Strings(l)
	return l
}

func (t tree) children(d string) []string {
	var l []string
	for p := range t {
		if p != "" && parent(p) == d && p != d {
			l = append(l, base(p))
		}
	}
	sort.Strings(l)
	return l
}

func (t tree) mkdirAll(p string) {
	for q := p; q != ""; q = parent(q) {
		if !t.exists(q) {
			t[q] = node{Dir: true}
		}
	}
}

func (t tree) removeAll(p string) {
	for q := range t {
		if under(q, p) {
			delete(t, q)
		}
	}
}

// copyInto copies the subtree rooted at s (taken from snapshot src) to path d in t (merging into an existing directory).
func (t tree) copyInto(src tree, s, d string) {
	if src.isFile(s) {
		t[d] = src[s]
		return
	}
	if d != "" {
		t[d] = node{Dir: true}
	}
	for _, q := range src.below(s) {
		rel := strings.TrimPrefix(q, s+"/")
		if s == "" {
			rel = q
		}
		t[join(d, rel)] = src[q]
	}
}

// conflict: a proper prefix of p exists and is not a directory
func (t tree) prefixConflict(p string) bool {
	for q := parent(p); q != ""; q = parent(q) {
		if t.exists(q) && !t.isDir(q) {
			return true
		}
	}
	return false
}

// ---------------------------------------------------------------------------------------------

type call struct {
	Op   string `json:"op"`
	A    string `json:"a"`           // raw first path argument (relative to the sandbox root; may have trailing separators)
	B    string `json:"b,omitempty"` // raw second path argument
	Data string `json:"data,omitempty"`
	Flag bool   `json:"flag,omitempty"`
	Ctx  int    `json:"cancel_at_op,omitempty"` // >0: the call runs with a context cancelled inside this backend op (invariants only)
}

// outcome is one acceptable result of a call.
type outcome struct {
	OK      bool // true: must succeed; false: must fail (any kind)
	AnyKind bool // either success or failure accepted (kind unspecified)
	Tree    tree
	Val     string // canonical value ("" with ValSpec=false: unspecified)
	ValSpec bool
}

// verdict of the model for a call in state t.
type expectation struct {
	Conflict    bool      // kind conflict: sentence one does not apply
	Unspecified string    // non-empty: the documentation is silent here; only backend agreement is required
	Outcomes    []outcome // acceptable outcomes (model definite)
	SrcClass    string
	DstClass    string
	Overlap     string
	Dest        []string // cleaned paths the call may legitimately change (subtrees); everything else must stay untouched
}

func classOf(t tree, raw string) string {
	p := cl(raw)
	c := ""
	switch {
	case !t.exists(p):
		if t.isDir(parent(p)) && !t.prefixConflict(p) {
			c = "missing-with-parent"
		} else {
			c = "missing-without-parent"
		}
	case t.isFile(p):
		c = "file"
	case len(t.children(p)) == 0:
		c = "empty-dir"
	default:
		c = "non-empty-dir"
	}
	if trailing(raw) {
		c += "+sep"
	}
	return c
}

func overlap(s, d string) string {
	switch {
	case s == d:
		return "equal"
	case under(d, s):
		return "dest-inside-src"
	case parent(s) == d:
		return "dest-is-parent-of-src"
	case under(s, d):
		return "src-inside-dest"
	}
	return "disjoint"
}

func setVal(l []string) string {
	m := map[string]bool{}
	for _, x := range l {
		m[x] = true
	}
	u := make([]string, 0, len(m))
	for x := range m {
		u = append(u, x)
	}
	sort.Strings(u)
	return strings.Join(u, ",")
}

func hashOf(s string) string {
	h := sha256.Sum256([]byte(s))
	return hex.EncodeToString(h[:])
}

func same(t tree) []outcome { return []outcome{{OK: true, Tree: t}} }
func fail(t tree) []outcome { return []outcome{{OK: false, Tree: t}} }

// expect computes the model's expectation for c in state t (t is not modified).
func expect(t tree, c call) expectation {
	a, b := cl(c.A), cl(c.B)
	e := expectation{SrcClass: classOf(t, c.A)}
	twoPath := c.Op == "Copy" || c.Op == "CopyToFile" || c.Op == "CopyToDirectory" || c.Op == "Move"
	if twoPath {
		e.DstClass = classOf(t, c.B)
		e.Overlap = overlap(a, b)
	}
	// (i) prefix conflicts; (ii) trailing separator on an existing file
	if t.prefixConflict(a) || (twoPath && t.prefixConflict(b)) {
		e.Conflict = true
	}
	if (trailing(c.A) && t.isFile(a)) || (twoPath && trailing(c.B) && t.isFile(b)) {
		e.Conflict = true
	}
	val := func(ok bool, tr tree, v string) []outcome {
		return []outcome{{OK: ok, Tree: tr, Val: v, ValSpec: true}}
	}
	switch c.Op {
	case "WriteFile":
		e.Dest = []string{firstMissing(t, a)}
		if t.isDir(a) || trailing(c.A) || a == "" {
			e.Conflict = true
			break
		}
		nt := t.clone()
		if t.isDir(parent(a)) {
			nt[a] = node{Data: c.Data}
			if c.Data == "" {
				e.Outcomes = []outcome{{AnyKind: true, Tree: nt}}
			} else {
				e.Outcomes = same(nt)
			}
		} else {
			nt.mkdirAll(parent(a))
			nt[a] = node{Data: c.Data}
			e.Dest = []string{firstMissing(t, a)}
			e.Outcomes = []outcome{{OK: false, Tree: t}, {OK: true, Tree: nt}}
			if c.Data == "" {
				e.Outcomes = []outcome{{AnyKind: true, Tree: t}, {AnyKind: true, Tree: nt}}
			}
		}
	case "ReadFile":
		switch {
		case t.isDir(a):
			e.Conflict = true
		case t.isFile(a):
			if t[a].Data == "" {
				e.Outcomes = []outcome{{AnyKind: true, Tree: t, Val: "", ValSpec: true}}
			} else {
				e.Outcomes = val(true, t, t[a].Data)
			}
		default:
			e.Outcomes = fail(t)
		}
	case "MkDir":
		e.Dest = []string{firstMissing(t, a)}
		switch {
		case c.A == "":
			e.Outcomes = fail(t)
		case t.isFile(a):
			e.Conflict = true
		default:
			nt := t.clone()
			nt.mkdirAll(a)
			e.Outcomes = same(nt)
		}
	case "Touch":
		e.Dest = []string{firstMissing(t, a)}
		switch {
		case t.exists(a):
			e.Outcomes = same(t)
		case t.isDir(parent(a)) && !trailing(c.A) && a != "":
			nt := t.clone()
			nt[a] = node{}
			e.Outcomes = same(nt)
		default:
			e.Unspecified = "Touch of a missing path with a trailing separator or without parent"
		}
	case "Ls":
		switch {
		case t.isFile(a):
			e.Conflict = true
		case t.isDir(a):
			e.Outcomes = val(true, t, setVal(t.children(a)))
		default:
			e.Outcomes = fail(t)
		}
	case "LsRecursive", "ListDirTree":
		switch {
		case t.isFile(a):
			e.Conflict = true
		case t.isDir(a):
			var l []string
			for _, p := range t.below(a) {
				if t[p].Dir && c.Op == "LsRecursive" && !c.Flag {
					continue
				}
				l = append(l, p)
			}
			e.Outcomes = val(true, t, setVal(l))
		default:
			e.Unspecified = c.Op + " of a missing directory"
		}
	case "SubDirectories":
		switch {
		case t.isFile(a):
			e.Conflict = true
		case t.isDir(a):
			var l []string
			for _, n := range t.children(a) {
				if t.isDir(join(a, n)) && !strings.HasPrefix(n, ".") {
					l = append(l, n)
				}
			}
			e.Outcomes = val(true, t, setVal(l))
		default:
			e.Outcomes = fail(t)
		}
	case "FindAll":
		switch {
		case t.isFile(a):
			e.Conflict = true
		case t.isDir(a):
			var l []string
			for _, p := range t.below(a) {
				if !t[p].Dir && strings.HasSuffix(p, ".txt") {
					l = append(l, p)
				}
			}
			e.Outcomes = val(true, t, setVal(l))
		default:
			e.Outcomes = val(true, t, "")
		}
	case "Exists":
		e.Outcomes = val(true, t, boolS(t.exists(a)))
	case "IsFile":
		e.Outcomes = []outcome{{AnyKind: true, Tree: t, Val: boolS(t.isFile(a)), ValSpec: true}}
	case "IsDir":
		e.Outcomes = []outcome{{AnyKind: true, Tree: t, Val: boolS(t.exists(a) && t.isDir(a)), ValSpec: true}}
	case "IsEmpty":
		v := true
		switch {
		case t.isFile(a):
			v = t[a].Data == ""
		case t.exists(a):
			v = len(t.children(a)) == 0
		}
		e.Outcomes = []outcome{{AnyKind: true, Tree: t, Val: boolS(v), ValSpec: true}}
	case "GetFileSize":
		switch {
		case t.isFile(a):
			e.Outcomes = val(true, t, itoa(len(t[a].Data)))
		case t.exists(a):
			e.Conflict = true
		default:
			e.Outcomes = fail(t)
		}
	case "FileHash":
		switch {
		case t.isFile(a):
			e.Outcomes = val(true, t, hashOf(t[a].Data))
		case t.exists(a):
			e.Conflict = true
		default:
			e.Outcomes = fail(t)
		}
	case "Rm":
		e.Dest = []string{a}
		if a == "" {
			e.Unspecified = "Rm of the root / empty path"
			break
		}
		nt := t.clone()
		nt.removeAll(a)
		e.Outcomes = same(nt)
	case "CleanDir":
		e.Dest = []string{a}
		switch {
		case t.isFile(a):
			e.Conflict = true
		case !t.exists(a):
			e.Outcomes = same(t)
		default:
			nt := t.clone()
			for _, p := range t.below(a) {
				delete(nt, p)
			}
			e.Outcomes = same(nt)
		}
	case "Copy", "CopyToFile", "CopyToDirectory":
		expectCopy(t, c, a, b, &e)
	case "Move":
		expectMove(t, c, a, b, &e)
	}
	return e
}

func firstMissing(t tree, p string) string {
	// the highest missing ancestor of p (creating p may create it)
	r := p
	for q := p; q != ""; q = parent(q) {
		if !t.exists(q) {
			r = q
		}
	}
	return r
}

func expectCopy(t tree, c call, a, b string, e *expectation) {
	e.Dest = []string{firstMissing(t, b)}
	if a == b && !t.exists(a) {
		e.Unspecified = "copy of a missing path onto itself"
		return
	}
	if !t.exists(a) {
		if c.Op == "CopyToDirectory" {
			e.Unspecified = "CopyToDirectory of a missing source (the destination directory may or may not have been created)"
			return
		}
		e.Outcomes = fail(t)
		return
	}
	if a == "" {
		e.Unspecified = "copy of the sandbox root"
		return
	}
	switch c.Op {
	case "CopyToFile":
		if t.isDir(a) {
			e.Conflict = true
			return
		}
		if t.exists(b) && t.isDir(b) {
			e.Conflict = true
			return
		}
		if !t.exists(b) && (trailing(c.B) || c.B == "") {
			e.Outcomes = fail(t)
			return
		}
		if a == b {
			e.Unspecified = "CopyToFile onto itself"
			return
		}
		nt := t.clone()
		nt[b] = t[a]
		if t.isDir(parent(b)) {
			e.Outcomes = same(nt)
		} else {
			nt.mkdirAll(parent(b))
			e.Outcomes = []outcome{{OK: false, Tree: t}, {OK: true, Tree: nt}}
		}
		return
	case "CopyToDirectory":
		if t.isFile(b) {
			e.Conflict = true
			return
		}
	}
	// Copy(s,t) = cp -r ; CopyToDirectory(s,d) = mkdir -p d; Copy(s,d)
	if e.Overlap == "dest-inside-src" || e.Overlap == "equal" {
		e.Unspecified = "copy with the destination equal to / inside the source"
		return
	}
	nt := t.clone()
	destIsDir := t.exists(b) && t.isDir(b)
	if c.Op == "CopyToDirectory" && !t.exists(b) {
		nt.mkdirAll(b)
		destIsDir = true
	}
	var target string
	switch {
	case t.isFile(a):
		switch {
		case destIsDir:
			target = join(b, base(a))
		case t.isFile(b):
			target = b
		case trailing(c.B):
			nt.mkdirAll(b)
			target = join(b, base(a))
		default:
			target = b
		}
	default: // directory source
		switch {
		case destIsDir:
			target = join(b, base(a))
		case t.isFile(b):
			e.Conflict = true
			return
		default:
			target = b
		}
	}
	if target == a {
		// e.g. Copy(a/f, a): the resolved target is the source itself → tree unchanged, kind unspecified
		e.Outcomes = []outcome{{AnyKind: true, Tree: t}}
		e.Overlap = "resolved-target-is-source"
		return
	}
	if t.isFile(a) && t.exists(target) && t.isDir(target) {
		e.Conflict = true
		return
	}
	if t.isDir(a) && t.isFile(target) {
		e.Conflict = true
		return
	}
	if under(target, a) {
		e.Unspecified = "copy whose resolved target lies inside the source"
		return
	}
	if t.isDir(a) {
		// merging into an existing directory: a file where a directory is needed (or the reverse) deeper down is a kind conflict too
		for _, q := range t.below(a) {
			tq := join(target, strings.TrimPrefix(q, a+"/"))
			if t.exists(tq) && t.isDir(tq) != t.isDir(q) {
				e.Conflict = true
				return
			}
		}
	}
	needParents := !nt.isDir(parent(target))
	nt2 := nt.clone()
	nt2.mkdirAll(parent(target))
	nt2.copyInto(t, a, target)
	if needParents {
		e.Outcomes = []outcome{{OK: false, Tree: t}, {OK: true, Tree: nt2}}
	} else {
		e.Outcomes = same(nt2)
	}
}

func expectMove(t tree, c call, a, b string, e *expectation) {
	e.Dest = []string{firstMissing(t, b), a}
	if c.A == c.B {
		e.Outcomes = same(t)
		return
	}
	if !t.exists(a) {
		e.Outcomes = fail(t)
		return
	}
	if a == "" || a == b {
		e.Unspecified = "move of the root / onto the same cleaned path"
		return
	}
	if under(b, a) {
		e.Unspecified = "move with the destination inside the source"
		return
	}
	var target string
	switch {
	case t.exists(b) && t.isDir(b):
		target = join(b, base(a))
	case t.isFile(b):
		if t.isDir(a) {
			e.Conflict = true
			return
		}
		target = b
	default:
		if trailing(c.B) && t.isFile(a) {
			// a file moved to a missing path written as a directory: mv refuses; the library (like its Copy) creates the directory and moves the file into it
			nt := t.clone()
			nt.mkdirAll(b)
			nt[join(b, base(a))] = t[a]
			nt.removeAll(a)
			e.Outcomes = []outcome{{OK: false, Tree: t}, {OK: true, Tree: nt}}
			return
		}
		target = b
	}
	if target == a {
		e.Outcomes = []outcome{{AnyKind: true, Tree: t}}
		e.Overlap = "resolved-target-is-source"
		return
	}
	if t.exists(target) {
		if t.isDir(target) != t.isDir(a) {
			e.Conflict = true
			return
		}
		if t.isDir(target) && len(t.children(target)) > 0 {
			e.Unspecified = "move onto an existing non-empty directory of the same name (mv refuses, the documentation is silent)"
			return
		}
	}
	nt := t.clone()
	needParents := !t.isDir(parent(target))
	nt.mkdirAll(parent(target))
	nt.removeAll(target)
	nt.copyInto(t, a, target)
	nt.removeAll(a)
	if needParents {
		e.Outcomes = []outcome{{OK: false, Tree: t}, {OK: true, Tree: nt}}
	} else {
		e.Outcomes = same(nt)
	}
}

func boolS(b bool) string {
	if b {
		return "true"
	}
	return "false"
}

func itoa(n int) string {
	if n == 0 {
		return "0"
	}
	s := ""
	for n > 0 {
		s = string(rune('0'+n%10)) + s
		n /= 10
	}
	return s
}
