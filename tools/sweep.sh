#!/bin/bash
# tools/sweep.sh [seed] [tier]: run every registered check once and print one line per check.
cd "$(dirname "$(readlink -f "$0")")/.."
seed=${1:-1}; tier=${2:-quick}
for c in $(python3 -c "import json;print(' '.join(x['property_id'] for x in json.load(open('MANIFEST.json'))['checks']))"); do
  s=$(date +%s)
  out=$(VERIF_SEED=$seed ./check $c --tier $tier 2>&1); rc=$?
  e=$(( $(date +%s) - s ))
  nv=$(echo "$out" | grep -c "^VIOLATION")
  nk=$(echo "$out" | grep -c "^KNOWN-FINDING")
  nn=$(echo "$out" | grep -c "^note:")
  echo "$c rc=$rc violations=$nv known=$nk notes=$nn ${e}s | $(echo "$out" | tail -1 | cut -c1-110)"
done
