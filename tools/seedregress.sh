#!/bin/bash
# tools/seedregress.sh [pattern] : run the quick check of every kept seeded change (seeded/<ID><letter>/patch.diff) through
# tools/mutant.sh and print one line per seed. Exit 0 when every one of them is caught.
# Seeds listing several checks in meta.json ("checks": ["C01","C17"]) are run against each.
cd /verif || exit 2
pat="${1:-}"
miss=0
for d in seeded/C*; do
  [ -f "$d/patch.diff" ] || continue
  name=$(basename "$d")
  case "$name" in *"$pat"*) ;; *) continue ;; esac
  ids=$(python3 -c "
import json,sys
m=json.load(open('$d/meta.json'))
print(' '.join(m.get('checks') or [m['property']]))")
  for id in $ids; do
    out=$(MUT_LINES=3 tools/mutant.sh "$id" "$d/patch.diff" 2>&1 | tail -1)
    echo "$name $id: $out"
    exp=$(python3 -c "import json;print(json.load(open('$d/meta.json')).get('verdict','caught'))"); case "$out" in *CAUGHT*) ;; *) if [ "$exp" = missed ]; then echo "  (recorded as missed)"; else miss=$((miss+1)); fi ;; esac
  done
done
echo "missed=$miss"
[ $miss -eq 0 ]
