#!/usr/bin/env python3
"""Regenerates /verif/MANIFEST.json from the table below (one entry per property that has a check)."""
import json, os, sys
ROOT = os.path.dirname(os.path.dirname(os.path.abspath(__file__)))
props = [json.loads(l) for l in open(os.path.join(ROOT, 'properties.jsonl'))]
ids = [p['id'] for p in props]

CHECKS = {}
def check(pid, category, text, note, technique, design_ref):
    CHECKS[pid] = dict(category=category, text=text, note=note, technique=technique, design_ref=design_ref)

exec(open(os.path.join(ROOT, 'tools', 'checks_table.py')).read())

man = {
 "version": 1,
 "setup_cmd": "./setup.sh",
 "hooks": {
  "guard": "verif",
  "enable": "go build -tags verif (the ./check driver always passes -tags verif; the harness module replaces the library module with /repo/utils)",
  "baseline_off_cmd": "cd /repo/utils && GOFLAGS=-mod=mod GOPROXY=off go test -json -vet=off -count=1 -timeout 25m ./...",
  "source_commits": HOOK_COMMITS,
  "add_only": True
 },
 "engines": ENGINES,
 "checks": [],
 "not_applicable": [],
 "notes": NOTES,
}
for pid in ids:
    if pid in CHECKS:
        c = CHECKS[pid]
        man["checks"].append({
            "property_id": pid,
            "quick_cmd": f"./check {pid} --tier quick",
            "thorough_cmd": f"./check {pid} --tier thorough",
            "evidence_file": f"/verif/evidence/{pid}.json",
            "replay_cmd_template": f"./check {pid} --replay {{path}}",
            "engine": "vcheck",
            "level_claimed": {"category": c['category'], "text": c['text'], "design_ref": c['design_ref']},
            "level_note": c['note'],
            "technique": c['technique'],
        })
    else:
        man["not_applicable"].append({"property_id": pid, "reason": NOT_YET.get(pid, "monitor not built yet in this round (runtime monitoring applies; see DESIGN.md §4)")})
json.dump(man, open(os.path.join(ROOT, 'MANIFEST.json'), 'w'), indent=1)
print("checks:", [c["property_id"] for c in man["checks"]])
