#!/bin/bash
# tools/seedverify.sh <diff> <demo_test.go> <package dir relative to utils, e.g. filesystem> <go test -run regex> [extra go test args]
# Confirms a seeded change independently: (1) with the change the package's existing tests still pass (baseline
# failures tolerated: names listed in $BASELINE_FAIL), (2) the demonstration FAILS with the change and (3) PASSES without it.
set -u
DIFF=$(readlink -f "$1"); DEMO=$(readlink -f "$2"); PKG=$3; RUN=$4; shift 4
SCR=$(mktemp -d /var/tmp/verif-scratch/seedv-XXXXXX); trap 'rm -rf "$SCR"' EXIT
export GOFLAGS=-mod=mod GOPROXY=off; unset GOSUMDB GOTOOLCHAIN
BASELINE_FAIL="${BASELINE_FAIL:-TestFileHash2|Test_IsZip|TestUnzip_Limits|TestLockStale|TestLockConcurrentSafeguard|TestLockSequential|TestExecuteEmptyLines}"
cp -r /repo/utils "$SCR/utils"
cp "$DEMO" "$SCR/utils/$PKG/zz_seed_demo_test.go"
cd "$SCR/utils"
echo "== demo WITHOUT the change (must pass)"
go test -count=1 -vet=off -run "$RUN" "$@" "./$PKG/" > "$SCR/without.txt" 2>&1; rc0=$?
tail -3 "$SCR/without.txt"
(cd "$SCR" && patch -p1 --no-backup-if-mismatch -s < "$DIFF") || { echo "PATCH DOES NOT APPLY"; exit 2; }
go build ./... || { echo "DOES NOT BUILD"; exit 2; }
echo "== demo WITH the change (must fail)"
go test -count=1 -vet=off -run "$RUN" "$@" "./$PKG/" > "$SCR/with.txt" 2>&1; rc1=$?
tail -5 "$SCR/with.txt" | cut -c1-300
echo "== existing tests of ./$PKG WITH the change"
rm -f "$SCR/utils/$PKG/zz_seed_demo_test.go"
go test -count=1 -vet=off "./$PKG/" > "$SCR/suite.txt" 2>&1
grep -E "^--- FAIL" "$SCR/suite.txt" | grep -Ev "$BASELINE_FAIL" > "$SCR/newfail.txt"
tail -2 "$SCR/suite.txt"
if [ $rc0 -eq 0 ] && [ $rc1 -ne 0 ] && [ ! -s "$SCR/newfail.txt" ]; then echo "SEED CONFIRMED"; exit 0; fi
echo "SEED NOT CONFIRMED (without rc=$rc0, with rc=$rc1, new failing tests: $(cat "$SCR/newfail.txt" | tr '\n' ' '))"; exit 1
