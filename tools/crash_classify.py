#!/usr/bin/env python3
"""tools/crash_classify.py <ID> <tier> <seed> <level> <stderr log> <wall seconds>

Called by ./check when the monitor binary died of a Go panic / fatal error (exit status 2 with a crash report on stderr).
The crash is attributed to the library, and reported as a violation, only when the goroutine that crashed was started by
the library and holds no frame of the monitor at all (no `main.` / `verif/` function): the library's own background work
brought the process down while the property's workload was running — no result the property promises can follow.
Anything else (a monitor frame on the crashing stack, no library frame, no crash report) stays a harness error (exit 2).
Exit status: 1 = violation printed, 2 = not attributable."""
import sys, re, os, json, hashlib

LIB = 'github.com/ARM-software/golang-utils/utils/'

def crashing_block(lines):
    start = None
    for i, l in enumerate(lines):
        if l.startswith('panic: ') or l.startswith('fatal error: '):
            start = i
            break
    if start is None:
        return None, None
    for j in range(start, len(lines)):
        if re.match(r'^goroutine \d+ (gp=\S+ m=\S+ mp=\S+ )?\[(running|syscall)', lines[j]):
            blk = []
            for l in lines[j:]:
                if l.strip() == '':
                    break
                blk.append(l)
            return lines[start], blk
    return lines[start], None

def main():
    pid, tier, seed, level, log, wall = sys.argv[1:7]
    try:
        lines = open(log, errors='replace').read().split('\n')
    except OSError:
        return 2
    head, blk = crashing_block(lines)
    if not blk:
        return 2
    funcs = [l.strip() for l in blk[1:] if not l.startswith('\t')]
    monitor = [f for f in funcs if f.startswith('main.') or f.startswith('verif/') or f.startswith('created by main.') or f.startswith('created by verif/')]
    library = [f for f in funcs if LIB in f]
    created_by_library = any(f.startswith('created by ' + LIB) for f in funcs)
    if monitor or not library or not created_by_library:
        return 2
    root = os.environ.get('VERIF_ROOT', '/verif')
    text = head + '\n\n' + '\n'.join(blk) + '\n'
    # the generated parts (addresses, goroutine numbers, scratch paths) do not belong to the identity of the crash
    ident = re.sub(r'0x[0-9a-f]+|goroutine \d+|\+0x[0-9a-f]+|/var/tmp/\S+?/utils/', '', '\n'.join(funcs))
    h = hashlib.sha256(ident.encode()).hexdigest()[:8]
    d = os.path.join(root, 'replay', pid)
    os.makedirs(d, exist_ok=True)
    path = os.path.join(d, '%s-seed%s-crash-%s.crashlog' % (tier, seed, h))
    with open(path, 'w') as f:
        f.write('# the monitor process of %s (%s tier, seed %s) was brought down by a goroutine of the library\n' % (pid, tier, seed))
        f.write('# replay: ./check %s --tier %s --replay %s   (runs the same case list again; the crash needs its schedule)\n\n' % (pid, tier, path))
        f.write(text)
        f.write('\n# --- end of the process output ---\n' + '\n'.join(lines[-200:]))
    ck = {}
    try:
        ck = json.load(open(os.environ.get('VERIF_CHECKPOINT', '')))
    except (OSError, ValueError):
        pass
    ev = {
        'property_id': pid, 'tier': tier, 'seed': int(seed), 'level': level, 'wall_s': float(wall), 'violations': 1,
        'verdict': 'violated',
        'coverage': {
            'evaluations': int(ck.get('evaluations', 0)) + 1, 'distinct_nontrivial': int(ck.get('distinct_nontrivial', 0)),
            'rule': 'the run did not finish: the monitor process was killed by a panic / fatal error in a goroutine started by the library '
                    '(no frame of the monitor on the crashing stack). Counts are those of the last checkpoint the monitor wrote (once a second) plus '
                    'the execution that crashed. Rule of the interrupted run: ' + str(ck.get('rule', '(no checkpoint yet)')),
            'samples': [{'crash': head, 'stack_functions': funcs[:20], 'witness': path}],
            'explanation': 'observation counters of the interrupted run are lost with the process; only the case counts of the last checkpoint survive',
        },
        'assumptions': ['a goroutine started by the library and holding no monitor frame crashed: attributed to the library'],
    }
    os.makedirs(os.path.join(root, 'evidence'), exist_ok=True)
    json.dump(ev, open(os.path.join(root, 'evidence', pid + '.json'), 'w'), indent=1)
    print('  signature: effect=process-killed-by-a-library-goroutine crash=%s' % head[:160])
    print('VIOLATION property=%s replay=%s' % (pid, path))
    return 1

sys.exit(main())
