#!/bin/bash
# tools/mutant.sh <ID> <patch.diff|-e 'sed-expr' file> : run the quick check of <ID> against a mutated copy of /repo/utils.
# usage: tools/mutant.sh C01 path/to/patch.diff          (patch is relative to /repo, i.e. paths start with utils/)
#        tools/mutant.sh C01 --sed 's/a/b/' utils/x/y.go  (in-place sed on one file)
# Prints the check's output; exit status: 0 = mutant CAUGHT (a VIOLATION line was printed), 1 = missed, 2 = build/harness error.
set -u
ID=$(echo "$1" | tr a-z A-Z); lc=$(echo "$ID" | tr A-Z a-z); shift
if [ "$1" != "--sed" ]; then PATCHFILE=$(readlink -f "$1"); fi
SCR=$(mktemp -d /var/tmp/verif-scratch/mut-$lc-XXXXXX)
trap 'rm -rf "$SCR"' EXIT
mkdir -p "$SCR/repo"; cp -r /repo/utils "$SCR/repo/utils"
if [ "$1" = "--sed" ]; then
  sed -i -E "$2" "$SCR/repo/$3" || exit 2
  if cmp -s "$SCR/repo/$3" "/repo/$3"; then echo "mutation did not change $3"; exit 2; fi
else
  (cd "$SCR/repo" && patch -p1 --no-backup-if-mismatch < "$PATCHFILE") || exit 2
fi
cd /verif
sed "s#=> /repo/utils#=> $SCR/repo/utils#" go.mod > "$SCR/go.mod"; cp go.sum "$SCR/go.sum"
cp known_findings.json "$SCR/"
export GOFLAGS="-mod=mod -modfile=$SCR/go.mod" GOPROXY=off
unset GOSUMDB GOTOOLCHAIN
RACE=""
case "$lc" in c01|c12|c16|c17|c19) export GOEXPERIMENT=synctest ;; esac
case "$lc" in c13) RACE="-race" ;; esac
go build -tags verif $RACE -o "$SCR/bin" "./cmd/$lc" || { echo "BUILD FAILED"; exit 2; }
if [ -f "cmd/$lc/extra_build.sh" ]; then BIN="$SCR/bin" bash "cmd/$lc/extra_build.sh" || { echo "HELPER BUILD FAILED"; exit 2; }; fi
export VERIF_ROOT="$SCR" VERIF_SCRATCH="$SCR/scratch" VERIF_BIN="$SCR/bin"; mkdir -p "$VERIF_SCRATCH"
timeout -s QUIT 900 "$SCR/bin" --tier "${MUT_TIER:-quick}" > "$SCR/out.txt" 2>&1
rc=$?
grep -E "^VIOLATION|signature:|KNOWN-FINDING|HARNESS|^C[0-9]+ " "$SCR/out.txt" | sort | uniq -c | sort -rn | head -${MUT_LINES:-12}
if grep -q "^VIOLATION" "$SCR/out.txt"; then echo "MUTANT CAUGHT (rc=$rc)"; exit 0; fi
echo "MUTANT MISSED (rc=$rc)"; exit 1
