HOOK_COMMITS = []
NOTES = "Every check is `./check <ID>`: it rebuilds the monitor against /repo's working tree (go.mod replace), runs it and writes evidence/<ID>.json. See DESIGN.md."
NOT_YET = {}
ENGINES = [
 {"name": "vcheck", "path": "/verif/check", "serves_properties": [], "kind_free_text": "driver + Go monitors (cmd/cXX) built on internal/{vrun,fsmon,snap,sched}: runtime monitors, reference-model oracles, fault/cancel injection at the afero boundary, synctest-bubble interleaving scheduler, race detector"},
]
check("C10", "exploration",
      "Reference-model monitor over executions: every ToX call is compared with an independent truncate-and-clamp reference (cross-checked against math/big); exhaustive over all 8/16-bit sources (quick) and all 32-bit sources incl. every float32 bit pattern (thorough); 64-bit sources on boundary neighbourhoods, powers of two, next-up/next-down floats and PRNG values; named types over every kind; monotonicity over sorted batches; panics recovered and reported.",
      "Trusted: Go's builtin conversions for in-range values, math/big. 64-bit sources are sampled, not enumerated. NaN: only no-panic.",
      "reference-model runtime monitor (math/big oracle), exhaustive small domains", "DESIGN.md §4 C10")
