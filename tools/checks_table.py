HOOK_COMMITS = []
NOTES = "Every check is `./check <ID>`: it rebuilds the monitor against /repo's working tree (go.mod replace), runs it and writes evidence/<ID>.json. See DESIGN.md."
NOT_YET = {}
ENGINES = [
 {"name": "vcheck", "path": "/verif/check", "serves_properties": [], "kind_free_text": "driver + Go monitors (cmd/cXX) built on internal/{vrun,fsmon,snap,sched}: runtime monitors, reference-model oracles, fault/cancel injection at the afero boundary, synctest-bubble interleaving scheduler, race detector"},
]
check("C10", "exploration",
      "Reference-model monitor over executions: every ToX call is compared with an independent truncate-and-clamp reference (cross-checked against math/big); exhaustive over all 8/16-bit sources (quick) and all 32-bit sources incl. every float32 bit pattern (thorough); 64-bit sources on boundary neighbourhoods, powers of two, next-up/next-down floats and PRNG values; named types over every kind; monotonicity over sorted batches; panics recovered and reported.",
      "Trusted: Go's builtin conversions for in-range values, math/big. 64-bit sources are sampled, not enumerated. NaN: only no-panic.",
      "reference-model runtime monitor (math/big oracle), exhaustive small domains", "DESIGN.md §4 C10")
check("C01", "exploration",
      "Controlled interleavings at filesystem-operation granularity inside a synctest bubble (virtual clock): 2..4 contenders with own decorated VFS over one OS directory, every backend op gated, schedules from random walk, PCT and single-preemption enumeration (bound 2 sampled in thorough). Oracles: overlap of client-boundary hold intervals; online ownership monitor of the lock directory (removal of a live non-stale incarnation by a non-creator). Only the first refuting event per schedule is judged (later ones are consequences). Two genuine defects are recorded as known findings with narrow classes.",
      "Trusted: Go's synctest bubble semantics, ext4 mkdir atomicity, the re-stamper's emulation of a filesystem clock equal to the process clock. Says nothing about NFS-like filesystems, clock skew between hosts or real scheduling latency (gate delay capped at 5 ms virtual). Held on the K schedules explored.",
      "runtime monitor over scheduler-controlled interleavings (synctest bubble + afero gate), history/ownership oracles", "DESIGN.md §4 C01, §2.3")
