HOOK_COMMITS = []
NOTES = "Every check is `./check <ID>`: it rebuilds the monitor against /repo's working tree (go.mod replace), runs it and writes evidence/<ID>.json. See DESIGN.md."
NOT_YET = {}
ENGINES = [
 {"name": "vcheck", "path": "/verif/check", "serves_properties": [], "kind_free_text": "driver + Go monitors (cmd/cXX) built on internal/{vrun,fsmon,snap,sched}: runtime monitors, reference-model oracles, fault/cancel injection at the afero boundary, synctest-bubble interleaving scheduler, race detector"},
]
check("C10", "exploration",
      "Reference-model monitor over executions: every ToX call is compared with an independent truncate-and-clamp reference (cross-checked against math/big); exhaustive over all 8/16-bit sources (quick) and all 32-bit sources incl. every float32 bit pattern (thorough); 64-bit sources on boundary neighbourhoods, powers of two, next-up/next-down floats and PRNG values; named types over every kind; monotonicity over sorted batches; panics recovered and reported.",
      "Trusted: Go's builtin conversions for in-range values, math/big. 64-bit sources are sampled, not enumerated. NaN: only no-panic.",
      "reference-model runtime monitor (math/big oracle), exhaustive small domains", "DESIGN.md §4 C10")
check("C01", "exploration",
      "Controlled interleavings at filesystem-operation granularity inside a synctest bubble (virtual clock): 2..4 contenders with own decorated VFS over one OS directory, every backend op gated, schedules from random walk, PCT and single-preemption enumeration (bound 2 sampled in thorough). Oracles: overlap of client-boundary hold intervals; online ownership monitor of the lock directory (removal of a live non-stale incarnation by a non-creator). Only the first refuting event per schedule is judged (later ones are consequences). Two genuine defects are recorded as known findings with narrow classes.",
      "Trusted: Go's synctest bubble semantics, ext4 mkdir atomicity, the re-stamper's emulation of a filesystem clock equal to the process clock. Says nothing about NFS-like filesystems, clock skew between hosts or real scheduling latency (gate delay capped at 5 ms virtual). Held on the K schedules explored.",
      "runtime monitor over scheduler-controlled interleavings (synctest bubble + afero gate), history/ownership oracles", "DESIGN.md §4 C01, §2.3")
check("C17", "fault_enumeration",
      "The enumerated fault is the holder's death point: the holder is stopped right after its j-th backend operation for every j of the acquire and of ≥2 steady-state heartbeat rounds (all later operations of that actor fail without effect), under scheduler-controlled interleavings with 0..5 observers and idle previous holders, in a synctest bubble. Oracles on the virtual clock: every IsStale call that begins >2 periods after the last stamp must return true; no true while every stamp in effect is ≤2 periods old; ReleaseIfStale + TryLock then succeed. Live clause: holds of 1..500 periods with IsStale/ReleaseIfStale/TryLock(/override) pollers — never stale, never released, never taken over.",
      "Trusted: synctest bubble semantics, the re-stamper (filesystem clock = process clock), ext4. The 'under concurrent I/O load' real-time clause is not decided (virtual time has zero scheduling latency by construction; gate delay ≤5 ms per operation).",
      "fault enumeration (death after op j) + scheduler-controlled interleavings, online stamp/IsStale oracle on a virtual clock", "DESIGN.md §4 C17")
check("C04", "exploration",
      "Hostile-input exploration with three monitors per execution: (O1) bit-for-bit snapshot of everything outside the tree before/after, (O2) online physical-containment check of every successful mutating backend operation (parent resolved with EvalSymlinks before the op runs), (O3/O4) post-conditions on nil results and on pattern-protected entries; trees decorated with all link classes (inside/outside, relative/absolute, loops, self, dangling, chains, root-is-link), 9 entry points, both backends.",
      "Trusted: the snapshot walker (Lstat, never follows links), filepath.EvalSymlinks. Runs as root, so read-only modes do not restrict. Root-is-link: the link target's content is a don't-care region.",
      "runtime monitor at the afero boundary + sandbox snapshot diff over generated trees with symlinks", "DESIGN.md §4 C04")
