#!/usr/bin/env python3
"""Regenerates the table of DESIGN.md §9.7 from seeded/*/meta.json (prints markdown)."""
import json, glob, os
def cut(s, n):
    s = ' '.join(str(s or '').split()).replace('|', '\\|')
    return s if len(s) <= n else s[:n-1] + '…'
print('| seed | change | needs | verdict and the oracle that fired |')
print('|---|---|---|---|')
for d in sorted(glob.glob('/verif/seeded/C*')):
    m = json.load(open(os.path.join(d, 'meta.json')))
    print('| %s | %s | %s | %s: %s |' % (os.path.basename(d), cut(m.get('what_changed'), 260), cut(m.get('needs_to_manifest'), 200),
          m.get('verdict', '?'), cut(m.get('caught_by'), 260)))
